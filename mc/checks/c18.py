"""C18 — the SPDX bill of materials is a faithful, well-formed image.

E1: (i) the C01 trees and defect states x every option combination of
`reuse spdx`; (ii) a complete family of expression sets (all expression trees
with <= 2 operators over three atoms incl. '+' and WITH, alone and in pairs) for
LicenseConcluded, decided by evaluating both sides under every truth
assignment; (iii) checksum chunk-boundary sizes.  Cross-checked with
`reuse lint --json` and hashlib.
"""
from __future__ import annotations

import hashlib
import itertools
import json
import re
import time

from .. import projects
from ..cli import run_cli
from ..core import HarnessError, R, explore, finish, fresh_dir
from ..envctl import FaultPlan, faulty_open
from ..fstree import materialise
from ..refmodel import spdxdoc, verdict
from .c01 import build

ID = "C18"
MODULE = "mc.checks.c18"

OPTS = {
    "plain": [],
    "concluded+person": ["--add-license-concluded", "--creator-person", "Jane Doe (jane@example.com)"],
    "organization": ["--creator-organization", "Acme Inc."],
    "concluded+both": ["--add-license-concluded", "--creator-person", "Jane", "--creator-organization", "Acme"],
    "output-file": ["-o", "@OUT@"],
}
ATOMS = ["MIT", "0BSD+", "ISC WITH Bison-exception-2.2"]


def expr_family():
    out = list(ATOMS)
    for op in ("AND", "OR"):
        for a, b in itertools.product(ATOMS, repeat=2):
            out.append(f"{a} {op} {b}")
    for o1 in ("AND", "OR"):
        for o2 in ("AND", "OR"):
            for a, b, c in itertools.product(ATOMS, repeat=3):
                out.append(f"({a} {o1} {b}) {o2} {c}")
                out.append(f"{a} {o1} ({b} {o2} {c})")
    return out


def bounds(tier, seed):
    return {"bases": projects.BASE_NAMES, "max_defects": 2 if tier == "quick" else 3, "options": list(OPTS),
            "expression_family": len(expr_family()), "expression_pairs": "every expression paired with 3 partners rotated by seed" if tier == "quick" else "all pairs of the 21 expressions with <= 1 operator + rotated partners",
            "sizes": [1, 8191, 8192, 8193, 100000]}


def cases(tier, seed):
    n = 2 if tier == "quick" else 3
    for b in range(len(projects.BASES)):
        for ds in projects.defect_sets(n):
            for o in OPTS:
                yield {"k": "tree", "base": b, "git": False, "defects": ds, "opt": o}
    yield {"k": "usage"}
    fam = expr_family()
    for e in fam:
        yield {"k": "expr", "exprs": [e]}
    for i, e in enumerate(fam):
        for d in (1, 7, 23):
            yield {"k": "expr", "exprs": [e, fam[(i + d + seed) % len(fam)]]}
    if tier == "thorough":
        small = fam[:21]
        for a, b in itertools.combinations(small, 2):
            yield {"k": "expr", "exprs": [a, b]}
        for a, b, c in itertools.combinations(small[:9], 3):
            yield {"k": "expr", "exprs": [a, b, c]}
    yield {"k": "sizes"}


def normalise(doc_text):
    t = re.sub(r"DocumentNamespace: \S+", "DocumentNamespace: X", doc_text)
    t = re.sub(r"Created: \S+", "Created: X", t)
    return t


def check_document(r: R, text, root, lint_data, lic_files, concluded: bool, label: str, exprs_by_file=None):
    try:
        doc, files, lics = spdxdoc.parse(text)
    except spdxdoc.SpdxFormatError as e:
        r.violation(f"not-tag-value|{label}", f"{label}: output does not parse as SPDX tag-value: {e}")
        return
    lint_files = {f["path"]: f for f in lint_data["files"]}
    names = [f["FileName"] for f in files]
    if sorted(names) != sorted("./" + p for p in lint_files) or len(set(names)) != len(names):
        r.violation(f"file-sections|{label}", f"{label}: File sections {sorted(names)} but lint examines {sorted(lint_files)}")
        return
    ids = [f["SPDXID"][0] for f in files]
    if len(set(ids)) != len(ids):
        r.violation(f"spdxid-not-unique|{label}", f"{label}: SPDXIDs {ids}")
    rel = doc.get("Relationship", [])
    want_rel = sorted(f"SPDXRef-DOCUMENT DESCRIBES {i}" for i in ids)
    if sorted(rel) != want_rel:
        r.violation(f"describes|{label}", f"{label}: relationships {sorted(rel)} but expected exactly {want_rel}")
    for f in files:
        path = f["FileName"][2:]
        sha = hashlib.sha1((root / path).read_bytes()).hexdigest()
        if f["FileChecksum"][0] != f"SHA1: {sha}":
            r.violation(f"checksum|{label}", f"{label}: {path}: FileChecksum {f['FileChecksum'][0]!r}, true SHA-1 {sha}")
        lf = lint_files[path]
        exprs = [e["value"] for e in lf["spdx_expressions"]]
        want_ids = sorted({i for e in exprs for i in spdxdoc.identifiers(e)})
        got_ids = sorted(set(f.get("LicenseInfoInFile", [])))
        if got_ids != want_ids:
            r.violation(f"license-info-in-file|{label}", f"{label}: {path}: LicenseInfoInFile {got_ids}, lint attributes {want_ids} (from {exprs})")
        cs = sorted(c["value"] for c in lf["copyrights"])
        want_c = "\n".join(cs) if any(cs) else "NONE"
        if f["FileCopyrightText"][0] != want_c:
            r.violation(f"copyright-text|{label}", f"{label}: {path}: FileCopyrightText {f['FileCopyrightText'][0]!r}, lint attributes {cs}")
        lc = f["LicenseConcluded"][0]
        if not concluded:
            if lc != "NOASSERTION":
                r.violation(f"concluded-without-option|{label}", f"{label}: {path}: LicenseConcluded {lc!r} without --add-license-concluded")
        elif not exprs:
            if lc != "NONE":
                r.violation(f"concluded-none|{label}", f"{label}: {path}: no expressions but LicenseConcluded {lc!r}")
        else:
            try:
                ok, env = spdxdoc.equivalent(lc, exprs)
            except ValueError as e:
                r.violation(f"concluded-unparseable|{label}", f"{label}: {path}: LicenseConcluded {lc!r}: {e}")
                continue
            r.validated += 1
            if not ok:
                r.violation(f"concluded-not-equivalent|{label}",
                            f"{label}: {path}: LicenseConcluded {lc!r} is not equivalent to the conjunction of {exprs}; differs under {env}")
    want_refs = {}
    for lf_ in lic_files:
        name = lf_.rsplit("/", 1)[-1]
        stem = name[: name.rindex(".")] if "." in name else name
        if re.match(r"LicenseRef-[a-zA-Z0-9-.]+$", stem) and not lf_.endswith(".license"):
            want_refs[stem] = (root / lf_).read_text(encoding="utf-8")
    got_refs = {l["LicenseID"]: l["ExtractedText"][0] for l in lics}
    if got_refs != want_refs:
        r.violation(f"licenseref-texts|{label}", f"{label}: LicenseRef sections {got_refs!r}, LICENSES/ holds {want_refs!r}")


def ev_tree(case) -> R:
    r = R()
    proj, unreadable, root, bad = build(case, "c18")
    label = f"{case['opt']}"
    plan = FaultPlan(lambda p: p in bad or p[:-len(".license")] in bad if p.endswith(".license") else p in bad)
    outdir = fresh_dir("c18out")
    opts = [str(outdir / "bom.spdx") if x == "@OUT@" else x for x in OPTS[case["opt"]]]
    with faulty_open(FaultPlan(lambda p: p in bad)):
        lint = run_cli(["--root", str(root), "--no-multiprocessing", "lint", "--json"])
        out = run_cli(["--root", str(root), "--no-multiprocessing", "spdx", *opts])
    if out.exc or out.exit_code != 0:
        r.violation(f"spdx-failed|{label}", f"base {proj['name']} {case['defects']} spdx {opts}: {out.brief()}")
        return r
    data = json.loads(lint.stdout)
    text = out.stdout
    if case["opt"] == "output-file":
        if out.stdout.strip():
            r.violation("output-file-also-prints", f"spdx -o printed {out.stdout[:100]!r}")
        text = (outdir / "bom.spdx").read_text(encoding="utf-8")
    r.validated = 0
    check_document(r, text, root, data, list(proj["licenses"]), "concluded" in case["opt"],
                   f"{proj['name']}|{case['opt']}")
    doc = spdxdoc.parse(text)[0] if not r.viol else None
    if doc:
        # the file sections against the specification model of the tree (not only against lint, which shares the tool's file walk)
        want_files = verdict.expected(proj, unreadable)["files"]
        got_files = sorted(f["FileName"][2:] for f in spdxdoc.parse(text)[1])
        if got_files != want_files:
            extra, missing = sorted(set(got_files) - set(want_files)), sorted(set(want_files) - set(got_files))
            r.violation(f"file-sections-vs-model|{'extra' if extra else 'missing'}|{proj['name']}",
                        f"base {proj['name']} {case['defects']}: File sections for non-covered files {extra}; covered files without a section {missing}")
        creators = doc.get("Creator", [])
        person = {"plain": "Anonymous ()", "organization": "Anonymous ()", "output-file": "Anonymous ()",
                  "concluded+person": "Jane Doe (jane@example.com)", "concluded+both": "Jane ()"}[case["opt"]]
        org = {"organization": "Acme Inc. ()", "concluded+both": "Acme ()"}.get(case["opt"], "Anonymous ()")
        if f"Person: {person}" not in creators or f"Organization: {org}" not in creators:
            r.violation(f"creator|{case['opt']}", f"Creator lines {creators}, expected Person: {person} / Organization: {org}")
        if doc["DocumentName"][0] != root.name:
            r.violation("document-name", f"DocumentName {doc['DocumentName'][0]!r} for root {root.name!r}")
    r.outcome = f"{case['opt']}|files={len(data['files'])}"
    r.nontrivial = bool(case["defects"]) or case["opt"] != "plain"
    r.evals = 2
    r.tags.append("tree")
    return r


def ev_usage(case) -> R:
    r = R()
    root = fresh_dir("c18")
    materialise(root, {"a.py": "# SPDX-License-Identifier: MIT\n# SPDX-FileCopyrightText: 2020 J\n", "LICENSES/MIT.txt": "t\n"})
    out = run_cli(["--root", str(root), "spdx", "--add-license-concluded"])
    if out.exit_code != 2 or out.exc:
        r.violation("concluded-without-creator-accepted", f"--add-license-concluded without creator: {out.brief()}")
    # the alternative spellings of two options are the same options
    canon_ = run_cli(["--root", str(root), "--no-multiprocessing", "spdx", "--add-license-concluded", "--creator-person", "J", "--creator-organization", "Acme"])
    alias = run_cli(["--root", str(root), "--no-multiprocessing", "spdx", "--add-licence-concluded", "--creator-person", "J", "--creator-organisation", "Acme"])
    if canon_.exc or canon_.exit_code != 0:
        raise HarnessError(f"spdx failed: {canon_.brief()}")
    norm = lambda t: re.sub(r"(DocumentNamespace|Created): \S+", r"\1: X", t)
    if alias.exc or alias.exit_code != 0 or norm(alias.stdout) != norm(canon_.stdout):
        r.violation("option-alias-differs", f"`spdx --add-licence-concluded --creator-person J --creator-organisation Acme`: {str(alias.brief())[:300]} "
                                            f"but the '-license-' / '-organization' spellings give a document")
    # .reuse/dep5 with a Copyright value that starts on the continuation line and uses ' .', and a License field without synopsis:
    # layout is not information, and 'no licence' is not a licence called None
    root = fresh_dir("c18")
    dep5 = ("Format: https://www.debian.org/doc/packaging-manuals/copyright-format/1.0/\nUpstream-Name: x\n\n"
            "Files: a.py\nCopyright:\n 2020 Jane\n .\n 2021 John\nLicense: MIT\n\nFiles: b.py\nCopyright: 2020 Jane\nLicense:\n the text of a licence\n .\n more text\n")
    materialise(root, {".reuse/dep5": dep5, "a.py": "a = 1\n", "b.py": "# SPDX-License-Identifier: MIT\nb = 1\n", "LICENSES/MIT.txt": "t\n"})
    lint = run_cli(["--root", str(root), "--no-multiprocessing", "--suppress-deprecation", "lint", "--json"])
    out = run_cli(["--root", str(root), "--no-multiprocessing", "--suppress-deprecation", "spdx", "--add-license-concluded", "--creator-person", "J"])
    if lint.exc or out.exc or out.exit_code != 0:
        r.violation("dep5-odd-fields|failed", f"lint {lint.brief()} / spdx {out.brief()}")
    else:
        data = json.loads(lint.stdout)
        vals = {f["path"]: (sorted(x["value"] for x in f["copyrights"]), sorted(x["value"] for x in f["spdx_expressions"])) for f in data["files"]}
        if vals.get("a.py") != (["2020 Jane", "2021 John"], ["MIT"]) or vals.get("b.py") != (["2020 Jane"], ["MIT"]):
            r.violation("dep5-odd-fields|lint", f"dep5 with a continuation-line Copyright and a synopsis-less License: lint attributes {vals}")
        doc, files, _l = spdxdoc.parse(out.stdout)
        for f in files:
            lc, ct = f["LicenseConcluded"][0], f["FileCopyrightText"][0]
            if "None" in lc or ct.startswith("\n") or "\n.\n" in ct or ct.endswith("\n."):
                r.violation("dep5-odd-fields|spdx", f"{f['FileName'][0]}: LicenseConcluded {lc!r}, FileCopyrightText {ct!r}")
    r.outcome = "usage"
    return r


def ev_expr(case) -> R:
    r = R()
    root = fresh_dir("c18")
    exprs = case["exprs"]
    head = "# SPDX-FileCopyrightText: 2020 Jane\n" + "".join(f"# SPDX-License-Identifier: {e}\n" for e in exprs)
    recipe = {"src/f.py": head + "x = 1\n", "LICENSES/MIT.txt": "t\n", "LICENSES/0BSD.txt": "t\n", "LICENSES/ISC.txt": "t\n",
              "LICENSES/Bison-exception-2.2.txt": "t\n", "g.txt": "no info here\n"}
    materialise(root, recipe)
    lint = run_cli(["--root", str(root), "--no-multiprocessing", "lint", "--json"])
    out = run_cli(["--root", str(root), "--no-multiprocessing", "spdx", "--add-license-concluded", "--creator-person", "J"])
    if out.exc or out.exit_code != 0:
        r.violation("spdx-failed|expr", f"spdx on expressions {exprs}: {out.brief()}")
        return r
    r.validated = 0
    check_document(r, out.stdout, root, json.loads(lint.stdout), [p for p in recipe if p.startswith("LICENSES/")], True, "expr")
    r.outcome = f"expr-{len(exprs)}"
    r.nontrivial = len(exprs) > 1 or " " in exprs[0]
    r.evals = 2
    r.tags.append("expr")
    return r


def ev_sizes(case) -> R:
    r = R()
    root = fresh_dir("c18")
    recipe = {"LICENSES/MIT.txt": "t\n"}
    for n in (1, 8191, 8192, 8193, 100000):
        recipe[f"bin/s{n}.png"] = {"hex": (bytes([0x89, 0x50, 0x4E, 0x47, 0, 1, 2, 3]) * (n // 8 + 1))[:n].hex()}
        recipe[f"bin/s{n}.png.license"] = "SPDX-FileCopyrightText: 2020 J\nSPDX-License-Identifier: MIT\n"
        recipe[f"txt/s{n}.txt"] = "# SPDX-FileCopyrightText: 2020 J\n# SPDX-License-Identifier: MIT\n" + "x" * max(0, n - 68)
    # files that share base name and content (identical checksum) in different directories, and identical content under different names
    same = "# SPDX-FileCopyrightText: 2020 J\n# SPDX-License-Identifier: MIT\n"
    for d in ("pkg_a", "pkg_b", "pkg_a/sub"):
        recipe[f"{d}/__init__.py"] = same
    recipe["pkg_a/other_name.py"] = same
    materialise(root, recipe)
    lint = run_cli(["--root", str(root), "--no-multiprocessing", "lint", "--json"])
    out = run_cli(["--root", str(root), "--no-multiprocessing", "spdx"])
    r.validated = 0
    check_document(r, out.stdout, root, json.loads(lint.stdout), ["LICENSES/MIT.txt"], False, "sizes")
    r.outcome = "sizes"
    r.tags.append("sizes")
    return r


_EV = {"tree": ev_tree, "usage": ev_usage, "expr": ev_expr, "sizes": ev_sizes}


def evaluate(case) -> R:
    return _EV[case["k"]](case)


def vacuity(st):
    for t in ("tree", "expr", "sizes"):
        if not st.tags.get(t):
            return f"slice {t} did not run"
    return None


def run(tier, seed):
    t0 = time.time()
    st = explore(MODULE, tier, seed)
    return finish(
        ID, "model_checking", MODULE, tier, seed, st, t0,
        rule=("C01 base trees x defect sets x 5 option combinations of `reuse spdx`, the complete family of licence-expression trees with <= 2 "
              "operators over 3 atoms (alone and paired), checksum chunk-boundary sizes; each document parsed with a strict tag-value reader and "
              "compared with `reuse lint --json`, hashlib.sha1 and (LicenseConcluded) every truth assignment of the atoms; "
              "traces_validated counts LicenseConcluded equivalence checks"),
        bounds=bounds(tier, seed),
        assumptions=["'X WITH Y' and 'X+' are propositional atoms", "LicenseRef texts contain no '</text>'"],
        vacuity=vacuity,
    )
