"""C02 — licence, copyright and contributor tags are read exactly, in any
comment syntax.

E1: text is generated, so the expected value is known by construction.
Slice A (pure reader): tag kind x value x every real comment style x form
(single-line / inline multi-line / block multi-line) x decoration (frame,
indentation, trailing blanks, stacked terminators).  Slice B (file level,
through lint): line ending x position relative to the 4096-byte window x
snippet marker.  Slice C: a file with an unparseable expression contributes
nothing.
"""
from __future__ import annotations

import itertools
import json
import time

from ..cli import run_cli
from ..core import HarnessError, R, explore, finish, fresh_dir
from ..fstree import materialise

ID = "C02"
MODULE = "mc.checks.c02"

LICENCES = ["MIT", "0BSD", "GPL-3.0-or-later", "MIT+", "LicenseRef-a.b", "MIT OR Apache-2.0", "MIT AND 0BSD", "GPL-3.0-or-later WITH Autoconf-exception-3.0",
            "MIT AND (0BSD OR ISC)", "(MIT OR 0BSD) AND ISC", "LicenseRef-x OR CC-BY-SA-4.0", "Apache-2.0 WITH LLVM-exception OR MIT",
            # the same identifiers in another letter case (identifiers are case-sensitive; values must come back as written)
            "mit", "Mit OR apache-2.0", "licenseref-X OR cc-by-sa-4.0"]
HOLDERS = ["Jane Doe", "Free Software Foundation Europe e.V.", "Jane Doe <jane@example.com>", "Acme, Inc. <https://acme.example/>", "Müller & Söhne GmbH",
           "山田太郎", "O'Reilly \"Quoted\" Media", "The foo-bar Authors", "Doe, Jane and contributors", "3M Company", "jane doe (maintainer)", "A",
           # holders whose last letters happen to mirror a word-like comment marker (Fortran 'c', m4 'dnl', batch 'REM')
           "Acme, Inc", "Marc", "Kindl and", "SUMMER"]
YEARS = [None, "2020", "2019-2021", "2019 - 2021", "2020,"]
CONTRIBUTORS = ["Kim Contributor", "Kim <kim@example.com>", "Łukasz Żółć", "K", "Kim (documentation)", "Kim, Lee and Max", "Eric", "Frantic", "Kindlnd", "HAMMER",
                # values that end in ONE character of a several-character comment marker ('//', '..', '<!--', '.\\"'): not the mirrored marker, so nothing to strip
                "Kim <https://kim.example/>/", "Kim https://kim.example/", "Kim Ltd.", "Kim!", "Kim -", "Kim \"K\""]
COPY_PREFIXES = ["SPDX-FileCopyrightText:", "SPDX-SnippetCopyrightText:", "SPDX-FileCopyrightText: (C)", "SPDX-FileCopyrightText: ©",
                 "SPDX-FileCopyrightText: Copyright", "SPDX-FileCopyrightText: Copyright (C)", "SPDX-FileCopyrightText: Copyright ©",
                 "Copyright", "Copyright (C)", "Copyright (c)", "Copyright ©", "©"]
FORMS = ["single", "inline-multi", "block-multi"]
DECOS = ["none", "frame", "frame-tab", "frame-glued", "indent-spaces", "indent-tab", "trailing-blanks", "blanks-after-terminator", "terminator-glued", "own-terminator-twice", "foreign-terminators-ab", "foreign-terminators-ba"]


def styles():
    from reuse.comment import _all_style_classes

    return [c for c in _all_style_classes() if c.SHORTHAND]


def terminators():
    out = []
    for c in styles():
        e = c.MULTI_LINE.end
        if e and e not in out:
            out.append(e)
    return out


def ends_in_terminator(v):
    return any(v.endswith(t) for t in terminators()) or v.endswith(('">', "'>", "::"))


def make_lines(cls, form, deco, body, kind):
    """Text of a comment holding *body* ('Tag: value'); returns (text, leading
    decoration of the tag line) or None if the combination does not exist."""
    terms = terminators()
    if form == "single":
        if not cls.can_handle_single():
            return None
        lead = cls.SINGLE_LINE
        line = lead + cls.INDENT_AFTER_SINGLE + body
        pre, post = "", ""
    else:
        if not cls.can_handle_multi():
            return None
        if form == "inline-multi":
            lead = cls.MULTI_LINE.start
            line = f"{lead} {body}"
            pre, post = "", " " + cls.MULTI_LINE.end
        else:
            lead = (cls.INDENT_BEFORE_MIDDLE + cls.MULTI_LINE.middle) if cls.MULTI_LINE.middle.strip() else ""
            line = (lead + cls.INDENT_AFTER_MIDDLE + body) if lead else body
            pre, post = cls.MULTI_LINE.start + "\n", "\n" + cls.INDENT_BEFORE_END + cls.MULTI_LINE.end
    dec = lead.strip()
    if deco.startswith("frame"):
        if not dec or any(ch.isalnum() for ch in dec) or form == "inline-multi":
            return None
        line = line + {"frame": " ", "frame-tab": "\t", "frame-glued": ""}[deco] + dec[::-1]
    elif deco == "indent-spaces":
        line = "    " + line
    elif deco == "indent-tab":
        line = "\t" + line
    elif deco == "trailing-blanks":
        line = line + "   \t"
    elif deco == "blanks-after-terminator":
        if form != "inline-multi":
            return None
        post = post + "  \t"
    elif deco == "terminator-glued":
        # the terminator follows the value without a blank: '<!--Tag: value-->', and as the end of a block's last line ' * Tag: value*/'
        if form == "single":
            return None
        if form == "inline-multi":
            line = f"{lead}{body}"
        post = cls.MULTI_LINE.end
    elif deco == "own-terminator-twice":
        if form != "inline-multi":
            return None
        post = post + cls.MULTI_LINE.end  # adjacent: '... end end' with no blank between the two
    elif deco.startswith("foreign-terminators"):
        own = cls.MULTI_LINE.end
        others = [t for t in terms if t != own]
        i = sum(map(ord, cls.SHORTHAND)) % len(others)
        a, b = others[i], others[(i + 5) % len(others)]
        if deco.endswith("ba"):
            a, b = b, a
        if form == "inline-multi":
            post = " " + a + b + post.lstrip(" ")
        else:
            line = line + " " + a + b
    return pre + line + post + "\n", dec


def bounds(tier, seed):
    return {"styles": len(styles()), "forms": FORMS, "decorations": DECOS, "licences": len(LICENCES), "holders": len(HOLDERS), "year_forms": YEARS,
            "copyright_prefixes": COPY_PREFIXES, "contributors": len(CONTRIBUTORS),
            "slice_A": "quick: every (kind, value) with every style x form x decoration, copyright holders x years reduced to a Latin square; thorough: full holders x years",
            "slice_D": "every ordered pair (3 styles) and every triple (python) of the licence values as separate tags of one comment", "slice_B": "3 line endings x 4 positions x 3 snippet placements x 6 (tag, style) pairs", "window": 4096}


def cases(tier, seed):
    sts = [c.SHORTHAND for c in styles()]
    for st in sts:
        for form in FORMS:
            for deco in DECOS:
                yield {"k": "A", "style": st, "form": form, "deco": deco, "tier": tier, "seed": seed}
    pairs = [("lic", "python"), ("cop", "c"), ("con", "html"), ("lic", "lisp"), ("cop", "jinja"), ("lic", "cpp")]
    for ending in ("\n", "\r\n", "\r"):
        for pos in ("start", "inside-end", "straddle", "after"):
            for snip in ("none", "before", "after"):
                for kind, st in pairs:
                    for filler in ("ascii", "multibyte"):
                        yield {"k": "B", "ending": ending, "pos": pos, "snip": snip, "kind": kind, "style": st, "filler": filler}
    # the window edge at every byte of the tag line: the tag is read whole or not at all, never cut short
    for ending in ("\n", "\r\n"):
        for kind, st in pairs:
            for d in range(1, 60):
                yield {"k": "B", "ending": ending, "pos": f"cut:{d}", "snip": "none", "kind": kind, "style": st, "filler": "ascii"}
    for k in (1, 2, 3):
        for d in range(0, 18):
            for ending in ("\n", "\r\n"):
                yield {"k": "B2", "offset": 4096 * k - d, "ending": ending}
    for st in ("python", "c", "html"):
        for pair in itertools.permutations(range(len(LICENCES)), 2):
            yield {"k": "D", "style": st, "lics": list(pair)}
        for tri in itertools.combinations(range(len(LICENCES)), 3):
            if st == "python":
                yield {"k": "D", "style": st, "lics": list(tri)}
    for st in sts:
        for form in FORMS:
            for kind in ("lic", "cop", "con", "snip"):
                for pad in ("", " ", "  \t"):
                    for with_other in (False, True):
                        yield {"k": "E", "style": st, "form": form, "kind": kind, "pad": pad, "with_other": with_other}
    for i, lic in enumerate(LICENCES):
        for broken in ("AND AND", "(", "WITH", "OR )"):
            yield {"k": "C", "lic": lic, "broken": broken, "where": "header" if i % 2 else "dot-license"}


def observe(text):
    from reuse.extract import extract_reuse_info

    try:
        info = extract_reuse_info(text)
    except Exception as e:
        return ("exc", type(e).__name__)
    return (sorted(str(x) for x in info.spdx_expressions), sorted(info.copyright_lines), sorted(info.contributor_lines))


def ev_A(c) -> R:
    cls = next(s for s in styles() if s.SHORTHAND == c["style"])
    r = R()
    r.evals = 0
    r.validated = 0
    form, deco = c["form"], c["deco"]
    probe = make_lines(cls, form, deco, "X: y", "lic")
    if probe is None:
        r.outcome, r.nontrivial = "n/a", False
        return r
    full = c["tier"] == "thorough"
    jobs = []
    for lic in LICENCES:
        jobs.append(("lic", f"SPDX-License-Identifier: {lic}", lic))
    for con in CONTRIBUTORS:
        jobs.append(("con", f"SPDX-FileContributor: {con}", con))
    for pi, pre in enumerate(COPY_PREFIXES):
        for hi, h in enumerate(HOLDERS):
            for yi, y in enumerate(YEARS):
                if not full and (pi + hi + yi + c["seed"]) % 2 != 0:
                    continue
                line = f"{pre} {y} {h}" if y else f"{pre} {h}"
                jobs.append(("cop", line, line))
    bad = 0
    for kind, body, want in jobs:
        text, dec = make_lines(cls, form, deco, body, kind)
        got = observe(text)
        r.evals += 1
        exp = ([want] if kind == "lic" else [], [want.rstrip(",") if False else want] if kind == "cop" else [], [want] if kind == "con" else [])
        if kind == "cop":
            exp = ([], [want], [])
        value = want
        # a value that ends in the mirror image of a *punctuation* line prefix cannot be told from a frame: observed only.
        # (a prefix made of letters - Fortran 'c', 'dnl', 'REM' - is never a frame)
        mirrored = bool(dec) and value.endswith(dec[::-1]) and not deco.startswith("frame") and not any(ch.isalnum() for ch in dec)
        unjudged = ends_in_terminator(value) or mirrored
        if unjudged:
            r.notes.append("observed-only: value ends in a terminator / mirrored prefix")
            continue
        r.validated += 1
        if got != exp:
            bad += 1
            if deco.startswith("frame") and kind == "cop":
                sig = "framed-copyright-line-keeps-frame"
            else:
                sig = f"A|{kind}|{form}|{deco}|{c['style'] if bad <= 1 else c['style']}"
            r.violation(sig, f"style {c['style']} form {form} decoration {deco}: text {text!r} is read as {got}, expected {exp}", text=text)
    r.outcome = "A-ok" if not r.viol else "A-diff"
    r.transitions = r.evals
    r.tags.append("A")
    return r


def ev_B(c) -> R:
    r = R()
    cls = next(s for s in styles() if s.SHORTHAND == c["style"])
    form = "single" if cls.can_handle_single() else "block-multi"
    kind = c["kind"]
    body, want_c, want_l, want_k = {
        "lic": ("SPDX-License-Identifier: MIT OR 0BSD", [], ["MIT OR 0BSD"], []),
        "cop": ("SPDX-FileCopyrightText: 2020 Jane Döe", ["SPDX-FileCopyrightText: 2020 Jane Döe"], [], []),
        "con": ("SPDX-FileContributor: Kim", [], [], ["Kim"]),
    }[kind]
    tag, _ = make_lines(cls, form, "none", body, kind)
    fill_unit = "filler line of text\n" if c["filler"] == "ascii" else "füllzeile mit ümläuten ß€\n"
    snippet = "SPDX-SnippetBegin\n"

    def size(s):
        return len(s.replace("\n", c["ending"]).encode("utf-8"))

    head = snippet if c["snip"] == "before" else ""
    tail = snippet if c["snip"] == "after" else ""
    pad = ""
    if c["pos"] == "start":
        text = head + tag + fill_unit * 300 + tail
    else:
        if c["pos"].startswith("cut:"):
            target = 4096 - int(c["pos"][4:])
        else:
            target = {"inside-end": 4096 - size(tag), "straddle": 4096 - size(tag) // 2, "after": 4096 + 1}[c["pos"]]
        while size(head + pad + fill_unit) <= target:
            pad += fill_unit
        if c["filler"] == "multibyte":
            while size(head + pad + "é") <= target:
                pad += "é"
            pad += "\n" if not pad.endswith("\n") and size(head + pad + "\n") <= target else ""
        while size(head + pad) < target and c["pos"] != "straddle":
            pad += "x" if not pad.endswith("\n") or size(head + pad) + 1 < target else "\n"
            if size(head + pad) == target - 1:
                pad += "\n"
                break
        if not pad.endswith("\n"):
            pad = pad[:-1] + "\n"
        text = head + pad + tag + fill_unit * 3 + tail
    data = text.replace("\n", c["ending"]).encode("utf-8")
    start = len((head + pad).replace("\n", c["ending"]).encode("utf-8")) if c["pos"] != "start" else len(head.replace("\n", c["ending"]).encode())
    end = start + len(tag.replace("\n", c["ending"]).encode("utf-8"))
    root = fresh_dir("c02")
    name = "f.txt"
    materialise(root, {name: {"hex": data.hex()}})
    out = run_cli(["--root", str(root), "--no-multiprocessing", "lint", "--json"])
    if out.exc or out.exit_code not in (0, 1):
        raise HarnessError(f"lint failed: {out.brief()}")
    f = [x for x in json.loads(out.stdout)["files"] if x["path"] == name][0]
    got_c = sorted(x["value"] for x in f["copyrights"])
    got_l = sorted(x["value"] for x in f["spdx_expressions"])
    inside = end <= 4096
    after = start >= 4096
    whole_file = c["snip"] != "none"
    label = (f"{kind} tag in {c['style']} style at bytes {start}-{end} (window 4096), line ending {c['ending']!r}, snippet marker {c['snip']}, filler {c['filler']}")
    sig = f"B|{kind}|{c['pos']}|ending={c['ending']!r}|snippet={c['snip']}"
    if kind != "con":
        if inside or whole_file:
            if (got_c, got_l) != (want_c, want_l):
                r.violation(sig, f"{label}: lint reads copyrights {got_c} expressions {got_l}, expected {want_c} {want_l}")
        elif after:
            if got_c or got_l:
                r.violation(sig + "|read-beyond-window", f"{label}: the tag lies wholly after the window and there is no snippet marker, yet lint reads {got_c} {got_l}")
        elif end - len(c["ending"].encode()) <= 4096 and (got_c, got_l) != (want_c, want_l):
            # only the line break lies behind the limit: every byte of the tag is inside the window
            r.violation(f"B|{kind}|tag-ends-at-the-window-edge", f"{label}: the tag's text ends at byte {end - len(c['ending'].encode())} <= 4096, yet lint reads copyrights {got_c} "
                                                               f"expressions {got_l}, expected {want_c} {want_l}")
        elif (got_c, got_l) not in ((want_c, want_l), ([], [])):
            r.violation(f"B|{kind}|tag-cut-by-the-window", f"{label}: the window ends inside the tag's line; lint reads copyrights {got_c} expressions {got_l} - "
                                                          f"neither the whole tag ({want_c} {want_l}) nor nothing")
    r.outcome = f"B-{'in' if inside else ('after' if after else 'straddle')}-{'snip' if whole_file else 'nosnip'}"
    r.nontrivial = not inside
    r.tags.append("B")
    return r


def ev_B2(c) -> R:
    """A snippet marker at every offset around a multiple of 4096 bytes; the
    tag lies far behind the window and must be found."""
    r = R()
    e = c["ending"]
    unit = "filler line 123456\n".replace("\n", e)
    pad = ""
    while len(pad) + len(unit) <= c["offset"]:
        pad += unit
    pad += "x" * (c["offset"] - len(pad) - len(e)) + e if c["offset"] - len(pad) >= len(e) else "x" * (c["offset"] - len(pad))
    text = pad + "SPDX-SnippetBegin" + e + unit * 250 + "SPDX-License-Identifier: MIT" + e + "SPDX-SnippetCopyrightText: 2020 Jane" + e
    data = text.encode("ascii")
    if data.find(b"SPDX-SnippetBegin") != c["offset"]:
        raise HarnessError(f"marker at {data.find(b'SPDX-SnippetBegin')} instead of {c['offset']}")
    root = fresh_dir("c02")
    materialise(root, {"f.txt": {"hex": data.hex()}})
    out = run_cli(["--root", str(root), "--no-multiprocessing", "lint", "--json"])
    f = [x for x in json.loads(out.stdout)["files"] if x["path"] == "f.txt"][0]
    got = (sorted(x["value"] for x in f["copyrights"]), sorted(x["value"] for x in f["spdx_expressions"]))
    if got != (["SPDX-SnippetCopyrightText: 2020 Jane"], ["MIT"]):
        r.violation(f"B2|snippet-marker-at-block-boundary|{c['offset'] % 4096 or 4096}", f"snippet marker at byte offset {c['offset']} (line ending {e!r}), tags at the end of the file: lint reads {got}")
    r.outcome = "B2"
    r.tags.append("B2")
    return r


def ev_C(c) -> R:
    r = R()
    root = fresh_dir("c02")
    bad = f"{c['lic']} {c['broken']}"
    lines = f"SPDX-FileCopyrightText: 2020 Jane\nSPDX-License-Identifier: {bad}\nSPDX-License-Identifier: MIT\n"
    if c["where"] == "header":
        rec = {"f.py": "".join("# " + l + "\n" for l in lines.splitlines()) + "x = 1\n"}
    else:
        rec = {"f.py": "x = 1\n", "f.py.license": lines}
    materialise(root, rec)
    out = run_cli(["--root", str(root), "--no-multiprocessing", "lint", "--json"])
    if out.exc or out.exit_code not in (0, 1):
        r.violation(f"C|lint-failed|{c['broken']}", f"unparseable expression {bad!r}: {out.brief()}")
        return r
    f = [x for x in json.loads(out.stdout)["files"] if x["path"] == "f.py"][0]
    if f["copyrights"] or f["spdx_expressions"]:
        r.violation(f"C|unparseable-file-contributes|{c['broken']}", f"file with unparseable expression {bad!r} ({c['where']}) still contributes {f}")
    r.outcome = "C"
    r.tags.append("C")
    return r


def ev_D(c) -> R:
    """Several licence tags in one comment: each is read as written, none is rewritten, merged or dropped because of the others."""
    r = R()
    lics = [LICENCES[i] for i in c["lics"]]
    cls = next(s for s in styles() if s.SHORTHAND == c["style"])
    body = "\n".join(["SPDX-FileCopyrightText: 2020 Jane Doe"] + [f"SPDX-License-Identifier: {l}" for l in lics])
    text = cls.create_comment(body) + "\n"
    got = observe(text)
    exp = (sorted(set(lics)), ["SPDX-FileCopyrightText: 2020 Jane Doe"], [])
    r.evals = 1
    r.validated = 1
    if got != exp:
        r.violation(f"D|several-tags|n={len(lics)}", f"style {c['style']}: text {text!r} is read as {got}, expected {exp}", text=text)
    r.outcome = "D-ok" if not r.viol else "D-diff"
    r.tags.append("D")
    return r


def ev_E(c) -> R:
    """A tag without a value declares nothing (and is not an expression called 'None', nor a notice made of the bare tag name)."""
    r = R()
    cls = next(s for s in styles() if s.SHORTHAND == c["style"])
    tag = {"lic": "SPDX-License-Identifier:", "cop": "SPDX-FileCopyrightText:", "con": "SPDX-FileContributor:", "snip": "SPDX-SnippetCopyrightText:"}[c["kind"]]
    made = make_lines(cls, c["form"], "none", tag + c["pad"], c["kind"])
    if made is None:
        r.outcome, r.nontrivial = "n/a", False
        return r
    text = made[0]
    if c["with_other"]:
        text += cls.create_comment("SPDX-FileCopyrightText: 2020 Jane Doe\nSPDX-License-Identifier: MIT") + "\n"
    got = observe(text)
    exp = (["MIT"], ["SPDX-FileCopyrightText: 2020 Jane Doe"], []) if c["with_other"] else ([], [], [])
    r.evals = r.validated = 1
    if got != exp:
        r.violation(f"E|empty-{c['kind']}-tag|{c['form']}", f"style {c['style']}: text {text!r} is read as {got}, expected {exp}", text=text)
    r.outcome = "E"
    r.tags.append("E")
    return r


_EV = {"A": ev_A, "B": ev_B, "B2": ev_B2, "C": ev_C, "D": ev_D, "E": ev_E}


def evaluate(c) -> R:
    return _EV[c["k"]](c)


def setup_worker():
    from ..cli import _install_logging

    _install_logging()


def vacuity(st):
    for t in _EV:
        if st.tags.get(t, 0) < 5:
            return f"slice {t} did not run"
    return None


def run(tier, seed):
    t0 = time.time()
    st = explore(MODULE, tier, seed)
    return finish(
        ID, "model_checking", MODULE, tier, seed, st, t0,
        rule=("slice A: every comment style x form x decoration, each carrying every licence / contributor value and copyright prefix x holder x year form "
              "(Latin-square reduction in quick), read by the real extract_reuse_info and compared with the generated value; slice B: tag position relative to "
              "the 4096-byte window x line ending x snippet marker x filler through `reuse lint --json`; slice C: unparseable expressions; "
              "evaluations = texts read; non-trivial = the combination exists for the style"),
        bounds=bounds(tier, seed),
        assumptions=["values whose own last characters are a comment terminator of some style, or (licence/contributor) the mirror image of their line prefix, are observed only",
                     "a tag straddling byte 4096 is observed only"],
        vacuity=vacuity,
    )
