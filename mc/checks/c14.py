"""C14 — results do not depend on scheduling, enumeration order, hash seed,
working directory or root spelling.

E3 environment explorer.  Five environment dimensions, each behind a seam the
harness owns, each enumerated completely within its bound over 8 trees; every
run's normalised `lint --json` and `spdx` output must equal the reference run
(serial, sorted listing, seed 0, cwd = root, absolute root).
"""
from __future__ import annotations

import hashlib
import itertools
import json
import math
import os
import re
import subprocess
import sys
import time

from .. import gitrepo
from ..cli import run_cli
from ..core import PY, VERIF, HarnessError, R, canon, explore, finish, fresh_dir
from ..envctl import FaultPlan, faulty_open, permuted_scandir, virtual_pool
from ..fstree import materialise

ID = "C14"
MODULE = "mc.checks.c14"
H = "# SPDX-FileCopyrightText: 2020 Jane\n# SPDX-License-Identifier: MIT\n"
TOML = "version = 1\n\n[[annotations]]\npath = \"**\"\nprecedence = \"closest\"\n"


def trees():
    t = {}
    t["headers"] = {"src/a.py": H + "a = 1\n", "src/b.c": "/*\n * SPDX-FileCopyrightText: 2021 Bob\n * SPDX-License-Identifier: 0BSD\n */\nint b;\n",
                    "docs/c.md": "<!--\nSPDX-FileCopyrightText: 2022 Cyd\nSPDX-License-Identifier: MIT\n-->\ntext\n", "README.md": "no info\n",
                    "LICENSES/MIT.txt": "mit\n", "LICENSES/0BSD.txt": "0bsd\n"}
    t["nested-toml"] = {
        "REUSE.toml": TOML + 'SPDX-FileCopyrightText = "2010 Root"\nSPDX-License-Identifier = "MIT"\n',
        "x/REUSE.toml": TOML + 'SPDX-License-Identifier = "0BSD"\n',
        "y/REUSE.toml": TOML + 'SPDX-FileCopyrightText = "2011 Why"\n',
        "y/sub/REUSE.toml": TOML + 'SPDX-License-Identifier = "ISC"\n',
        "top.py": "t = 1\n", "x/f.py": "# SPDX-FileCopyrightText: 2012 Eff\nf = 1\n", "x/sub/g.py": "g = 1\n",
        "y/h.py": "# SPDX-License-Identifier: Zlib\nh = 1\n", "y/sub/i.py": "i = 1\n", "z/j.py": "j = 1\n",
        # directory names that sort before '.', '..' and 'REUSE.toml'
        "-v/REUSE.toml": TOML + 'SPDX-License-Identifier = "ISC"\n', "-v/k.py": "# SPDX-FileCopyrightText: 2013 Kay\nk = 1\n",
        "(app)/REUSE.toml": TOML + 'SPDX-FileCopyrightText = "2014 App"\nSPDX-License-Identifier = "0BSD"\n', "(app)/l.py": "l = 1\n",
        "LICENSES/MIT.txt": "mit\n", "LICENSES/0BSD.txt": "0bsd\n", "LICENSES/ISC.txt": "isc\n",
    }
    t["dep5"] = {".reuse/dep5": ("Format: https://www.debian.org/doc/packaging-manuals/copyright-format/1.0/\nUpstream-Name: x\n\n"
                                 "Files: *\nCopyright: 2001 All\nLicense: MIT\n\nFiles: d/*\nCopyright: 2002 Dee\nLicense: 0BSD\n"),
                 "a.txt": "a\n", "d/b.txt": "b\n", "d/c.py": H + "c = 1\n", "e/f.txt": "f\n",
                 "LICENSES/MIT.txt": "mit\n", "LICENSES/0BSD.txt": "0bsd\n"}
    t["lookalike-names"] = {"a.py": H, "A.py": H.replace("Jane", "Upper"), "a.py.txt": "no info\n", "d/a.py": H.replace("MIT", "0BSD"),
                            "d.py/x": "no info\n", "LICENSES/MIT.txt": "mit\n", "LICENSES/0BSD.txt": "0bsd\n"}
    t["read-error"] = {"src/ok.py": H, "src/unreadable.py": H.replace("Jane", "Hidden"), "src/other.py": H.replace("MIT", "0BSD"),
                       "LICENSES/MIT.txt": "mit\n", "LICENSES/0BSD.txt": "0bsd\n"}
    t["stacked-terminators"] = {
        "a.txt": "SPDX-FileCopyrightText: 2020 Jane */-->\nSPDX-License-Identifier: MIT\n",
        "b.txt": "SPDX-FileCopyrightText: 2020 Kim #}:)\nSPDX-FileCopyrightText: 2020 Kim2 :)#}\nSPDX-License-Identifier: 0BSD\n",
        "c.txt": "SPDX-FileContributor: Lee =#*)\nSPDX-License-Identifier: MIT\nSPDX-FileCopyrightText: 2021 Lee '/}\nSPDX-FileCopyrightText: 2021 Lee2 }'/\n",
        "LICENSES/MIT.txt": "mit\n", "LICENSES/0BSD.txt": "0bsd\n"}
    t["licenses-dir"] = {"a.py": H.replace("MIT", "MIT AND LicenseRef-own"), "LICENSES/MIT.txt": "mit\n", "LICENSES/LicenseRef-own.txt": "own text\n",
                         "LICENSES/sub/Zlib.txt": "zlib\n", "LICENSES/GPL-2.0.txt": "deprecated\n", "LICENSES/MIT.txt.license": "SPDX-License-Identifier: CC0-1.0\n",
                         # a text whose whole name equals the identifier of its neighbour (which one is listed first must not matter)
                         "LICENSES/LicenseRef-a.b": "text ab, no extension\n", "LICENSES/LicenseRef-a.b.txt": "text ab\n"}
    t["case-variants"] = {"a.py": H, "b/c.py": H.replace("MIT", "mit"), "b/d.py": H.replace("MIT", "MIT OR 0bsd"), "e.py": H.replace("MIT", "0BSD OR MIT"),
                          "LICENSES/MIT.txt": "mit\n", "LICENSES/0BSD.txt": "0bsd\n"}
    # the same dual licence stated twice with the operands swapped: equal as expressions, different as text
    t["equal-expressions"] = {"a.py": H.replace("MIT", "MIT OR 0BSD") + "# SPDX-License-Identifier: 0BSD OR MIT\n", "b.py": "b = 1\n", "c/d.py": H.replace("MIT", "0BSD OR MIT"),
                              "REUSE.toml": 'version = 1\n\n[[annotations]]\npath = ["b.py", "c/**"]\nprecedence = "aggregate"\nSPDX-FileCopyrightText = "2020 Jane"\n'
                                            'SPDX-License-Identifier = ["MIT OR 0BSD", "0BSD OR MIT", "0BSD  OR  MIT"]\n',
                              "LICENSES/MIT.txt": "mit\n", "LICENSES/0BSD.txt": "0bsd\n"}
    # several licence texts without a file extension (reported in a section of their own, which is built from a mapping)
    t["no-extension"] = {"a.py": H, "b.py": H.replace("MIT", "0BSD"), "c.py": H.replace("MIT", "ISC AND Zlib"), "LICENSES/MIT": "mit\n", "LICENSES/0BSD": "0bsd\n",
                         "LICENSES/ISC": "isc\n", "LICENSES/Zlib": "zlib\n", "LICENSES/Apache-2.0": "unused\n", "LICENSES/CC0-1.0": "unused too\n"}
    t["git"] = {"a.py": H, "ignored.log": "x\n", "d/b.py": H, "d/c.log": "x\n", ".gitignore": "*.log\nbuild/\ndist/\ncache/\n", "LICENSES/MIT.txt": "mit\n",
                "build/out.py": "no info\n", "dist/pkg.py": "no info\n", "cache/c.py": "no info\n"}
    t["git-submodule"] = {"a.py": H, "src/b.py": H, "LICENSES/MIT.txt": "mit\n"}
    return t


TREES = trees()
NAMES = list(TREES)


def mutated(recipe):
    """The same tree with other holders, years and licences in every text (headers, .license files, REUSE.toml, dep5)."""
    def m(v):
        return v.replace("2020", "1987").replace("Jane", "Zed").replace("MIT", "ISC") if isinstance(v, str) else v
    return {p: m(v) for p, v in recipe.items()}


def populate(name, root):
    if name.endswith("~mutated"):
        materialise(root, mutated(TREES[name[:-len("~mutated")]]))
        return
    materialise(root, TREES[name])
    if name == "git":
        gitrepo.init(root, add=False)
        gitrepo.git(root, "add", "a.py", "d/b.py", ".gitignore", "LICENSES/MIT.txt")
    if name == "git-submodule":
        up = root.parent / (root.name + "-upstream")
        materialise(up, {"lib.c": "int lib;\n", "README": "no info\n"})
        gitrepo.init(up, add=True, commit=True)
        gitrepo.git(root, "init", "-q")
        gitrepo.git(root, "submodule", "add", "-q", str(up), "vendor/lib")
        gitrepo.git(root, "add", "-A")


def build(name, dirname="c14"):
    base = fresh_dir(dirname)
    root = base / "proj"
    root.mkdir()
    populate(name, root)
    return root


def norm_lint(text, cwd, root_abs):
    data = json.loads(text)
    pre = str(root_abs).rstrip("/")

    def relp(p):
        q = os.path.normpath(os.path.join(cwd, p))
        if q == pre:
            return "."
        return q[len(pre) + 1:] if q.startswith(pre + "/") else q

    nc = data["non_compliant"]
    out = {"files": sorted((f["path"], sorted(canon(c) for c in f["copyrights"]), sorted(canon(e) for e in f["spdx_expressions"])) for f in data["files"]),
           "summary": {k: (sorted(v) if isinstance(v, list) else v) for k, v in data["summary"].items()},
           "nc": {}}
    for k, v in nc.items():
        if k == "licenses_without_extension":
            # (relative to the root, like files[].path - not to the working directory like the other paths)
            out["nc"][k] = dict(sorted(v.items()))
        elif isinstance(v, dict):
            out["nc"][k] = {kk: (sorted(relp(x) for x in vv) if isinstance(vv, list) else relp(vv)) for kk, vv in sorted(v.items())}
        elif k in ("missing_copyright_info", "missing_licensing_info", "read_errors"):
            out["nc"][k] = sorted(relp(x) for x in v)
        else:
            out["nc"][k] = sorted(v)
    out["recommendations"] = len(data.get("recommendations", []))
    return out


def norm_spdx(text):
    t = re.sub(r"DocumentNamespace: \S+", "DocumentNamespace: X", text)
    return re.sub(r"Created: \S+", "Created: X", t)


def _unordered(line):
    """The statement compares reports *up to the ordering of entries*: the lines of the human-readable formats are compared as a multiset,
    and the comma-separated list of a summary line ('* Used licenses: A, B') as a set."""
    head, sep, rest = line.partition(": ")
    if line.startswith("* ") and sep and ", " in rest:
        return head + sep + ", ".join(sorted(rest.split(", ")))
    return line


def observe(root, name, argv_root=None, cwd=None, pool=None, listing=None, multiprocessing=False, extra=()):
    """Run lint --json and spdx under the given environment; returns the pair
    of normalised observations."""
    root_abs = str(root)
    # the human-readable formats name files relative to the working directory: observed where that is the root itself
    with_plain = argv_root is None and cwd is None
    argv_root = argv_root if argv_root is not None else ["--root", root_abs]
    cwd = cwd or root_abs
    mp_flag = [] if multiprocessing else ["--no-multiprocessing"]
    bad = {os.path.join(root_abs, "src/unreadable.py")} if name == "read-error" else set()
    ctxs = []
    import contextlib

    with contextlib.ExitStack() as stack:
        stack.enter_context(faulty_open(FaultPlan(lambda p: p in bad)))
        if pool is not None:
            log = stack.enter_context(virtual_pool(pool))
        if listing is not None:
            stack.enter_context(permuted_scandir(listing))
        lint = run_cli([*argv_root, *mp_flag, *extra, "lint", "--json"], cwd=cwd)
        spdx = run_cli([*argv_root, *mp_flag, *extra, "spdx"], cwd=cwd)
        plain = None
        if with_plain:
            texts = [run_cli([*argv_root, *mp_flag, *extra, "lint", *fmt], cwd=cwd) for fmt in ([], ["--lines"])]
            if any(t.exc for t in texts):
                return ("failed", texts[0].brief(), texts[1].brief())
            plain = "\n".join(sorted(_unordered(line) for t in texts for line in t.stdout.replace(root_abs, "ROOT").split("\n")))
    if lint.exc or lint.exit_code not in (0, 1) or spdx.exc or spdx.exit_code != 0:
        return ("failed", lint.brief(), spdx.brief())
    return (norm_lint(lint.stdout, cwd, root_abs), norm_spdx(spdx.stdout), plain)


def n_jobs(name):
    if name == "git-submodule":
        return 3
    return sum(1 for p in TREES[name] if not p.startswith(("LICENSES/", ".reuse/")) and not p.endswith(("REUSE.toml", ".license"))
               and p not in ("ignored.log", "d/c.log", "build/out.py", "dist/pkg.py", "cache/c.py"))


def dir_entries(name):
    d = {}
    if name == "git-submodule":
        return {"": sorted(["a.py", "src", "LICENSES", "vendor", ".gitmodules", ".git"]), "src": ["b.py"], "vendor": ["lib"], "vendor/lib": sorted(["lib.c", "README", ".git"])}
    for p in TREES[name]:
        parts = p.split("/")
        for i in range(len(parts)):
            d.setdefault("/".join(parts[:i]), set()).add(parts[i])
    return {k: sorted(v) for k, v in d.items()}


def listing_combos(name, tier):
    dirs = {k: v for k, v in dir_entries(name).items() if 2 <= len(v) <= 4}
    keys = sorted(dirs)
    total = math.prod(math.factorial(len(dirs[k])) for k in keys)
    if total <= (600 if tier == "quick" else 5000):
        for combo in itertools.product(*[range(math.factorial(len(dirs[k]))) for k in keys]):
            yield dict(zip(keys, combo))
    else:
        # deviation-bounded: at most two directories deviate from sorted order
        yield {}
        for k in keys:
            for i in range(1, math.factorial(len(dirs[k]))):
                yield {k: i}
        for a, b in itertools.combinations(keys, 2):
            for i in range(1, math.factorial(len(dirs[a]))):
                for j in range(1, math.factorial(len(dirs[b]))):
                    yield {a: i, b: j}


CWDS = ["root", "subdir", "licenses", "outside"]
# names of the root directory itself that are special to pattern languages; 'p*x' has a sibling 'pyx' the pattern would also match
ROOTNAMES = ["p[1]", "[!a] b", "p*x", "p?x", "{a,b}", "r\\d",
             # names that mean something to the tool when they occur *inside* a project
             "subprojects", "LICENSES", ".reuse", "x.license", "LICENSE"]
SPELLINGS = ["absolute", "dot", "relative", "dotdot", "trailing-slash", "no-root-option"]


def bounds(tier, seed):
    return {"trees": NAMES, "schedules": "every chunk size 1..n x {forward, reverse, every rotation} of chunk execution order (n = number of jobs)",
            "listing": "every permutation of every directory with <= 4 entries (complete product when <= 600 (quick) / 5000 (thorough) combinations, else <= 2 deviating directories)",
            "hash_seeds": list(range(0, 64 if tier == "quick" else 512))[:3] + ["..."], "n_hash_seeds": 64 if tier == "quick" else 512,
            "relint": "every ordered pair of trees on one path in one process", "cwds": CWDS, "root_spellings": SPELLINGS, "root_directory_names": ["proj"] + ROOTNAMES, "real_pool_runs": "1 per tree (free-running, sampling, reported separately)"}


def cases(tier, seed):
    for name in NAMES:
        n = n_jobs(name)
        for cs in range(1, n + 1):
            nchunks = math.ceil(n / cs)
            for order in ["forward", "reverse"] + list(range(1, nchunks)):
                yield {"k": "sched", "tree": name, "chunksize": cs, "order": order}
        for combo in listing_combos(name, tier):
            yield {"k": "listing", "tree": name, "combo": combo}
        for cwd in CWDS:
            for sp in SPELLINGS:
                yield {"k": "cwd", "tree": name, "cwd": cwd, "spelling": sp}
        yield {"k": "realpool", "tree": name}
    for a in NAMES:
        for b in NAMES:
            if b == "git-submodule":
                continue   # its .gitmodules holds the absolute path of the upstream repository: two builds differ in content
            yield {"k": "relint", "a": a, "b": b, "mp": False}
            if a != b and (NAMES.index(a) + NAMES.index(b)) % 4 == 0 and "~" not in a:
                yield {"k": "relint", "a": a, "b": b, "mp": True}
    for b in NAMES:
        if b not in ("git", "git-submodule"):
            for mp in (False, True):
                yield {"k": "relint", "a": b + "~mutated", "b": b, "mp": mp}
    for name in NAMES:
        for rn in ROOTNAMES:
            for cwd, sp in (("root", "dot"), ("root", "no-root-option"), ("outside", "relative"), ("subdir", "dotdot")):
                yield {"k": "cwd", "tree": name, "cwd": cwd, "spelling": sp, "rootname": rn}
    nseeds = 64 if tier == "quick" else 512
    for s in range(nseeds):
        yield {"k": "seed", "seed": s}


def differs(a, b):
    if a[:2] == b[:2] and (len(a) < 3 or len(b) < 3 or a[2] is None or b[2] is None):
        return None
    if a == b:
        return None
    if isinstance(a, tuple) and isinstance(b, tuple) and a[0] != "failed" and b[0] != "failed":
        if a[0] != b[0]:
            for k in ("files", "nc", "summary", "recommendations"):
                if a[0][k] != b[0][k]:
                    return f"lint {k}: {canon(a[0][k])[:500]} vs reference {canon(b[0][k])[:500]}"
        if a[0] == b[0] and a[1] == b[1]:
            if len(a) < 3 or len(b) < 3 or a[2] is None or b[2] is None:
                return None
            for x, y in zip(a[2].split("\n"), b[2].split("\n")):
                if x != y:
                    return f"lint (plain / --lines) line {x!r} vs reference {y!r}"
            return "lint (plain / --lines) output of different length"
        la, lb = a[1].split("\n"), b[1].split("\n")
        for x, y in zip(la, lb):
            if x != y:
                return f"spdx line {x!r} vs reference {y!r}"
        return f"spdx length {len(la)} vs {len(lb)}"
    return f"{str(a)[:400]} vs reference {str(b)[:400]}"


def ev_sched(c) -> R:
    r = R()
    root = build(c["tree"])
    ref = observe(root, c["tree"])
    order = c["order"] if c["order"] != "forward" else None
    got = observe(root, c["tree"], pool={"chunksize": c["chunksize"], "order": order}, multiprocessing=True)
    d = differs(got, ref)
    if d:
        r.violation(f"schedule|{c['tree']}", f"tree {c['tree']}, pool chunk size {c['chunksize']} order {c['order']}: {d}")
    r.outcome = "sched-ok" if not d else "sched-diff"
    r.nontrivial = c["chunksize"] < n_jobs(c["tree"]) or c["order"] != "forward"
    r.evals = 4
    r.tags.append("sched")
    return r


def ev_listing(c) -> R:
    r = R()
    root = build(c["tree"])
    ref = observe(root, c["tree"])
    entries = dir_entries(c["tree"])
    pre = str(root)

    def order_fn(dirpath, names):
        rel = os.path.relpath(dirpath, pre)
        rel = "" if rel == "." else rel
        k = c["combo"].get(rel)
        if not k or rel not in entries or sorted(names) != sorted(entries[rel]) and not set(entries[rel]) <= set(names):
            return names
        perm = list(itertools.permutations(sorted(names)))
        return list(perm[k % len(perm)])

    got = observe(root, c["tree"], listing=order_fn)
    d = differs(got, ref)
    if d:
        r.violation(f"listing-order|{c['tree']}", f"tree {c['tree']}, directory listing permutation {c['combo']}: {d}")
    r.outcome = "listing-ok" if not d else "listing-diff"
    r.nontrivial = any(c["combo"].values())
    r.evals = 4
    r.tags.append("listing")
    return r


def ev_cwd(c) -> R:
    r = R()
    base = fresh_dir("c14base")
    root = base / c.get("rootname", "proj")
    root.mkdir()
    populate(c["tree"], root)
    if c.get("rootname"):
        materialise(base / "pyx", {"LICENSES/Zlib.txt": "decoy licence of a neighbouring project\n", "LICENSES/MIT.txt": "decoy\n"})
    ref = observe(root, c["tree"])
    sub = sorted(d for d in dir_entries(c["tree"]) if d and not d.startswith((".reuse", "LICENSES")))
    cwd = {"root": root, "subdir": root / (sub[0] if sub else "LICENSES"), "licenses": root / "LICENSES", "outside": base}[c["cwd"]]
    rel = os.path.relpath(root, cwd)
    sp = c["spelling"]
    if sp == "absolute":
        argv_root = ["--root", str(root)]
    elif sp == "dot":
        if c["cwd"] != "root":
            r.outcome, r.nontrivial = "n/a", False
            return r
        argv_root = ["--root", "."]
    elif sp == "relative":
        argv_root = ["--root", rel]
    elif sp == "dotdot":
        argv_root = ["--root", os.path.join(rel, "LICENSES", "..")]
    elif sp == "trailing-slash":
        argv_root = ["--root", str(root) + "/"]
    else:
        # root discovered: only meaningful from the root, or inside a Git repository / below .reuse
        if not (c["cwd"] == "root" or (c["tree"] in ("git", "git-submodule") and c["cwd"] in ("subdir", "licenses"))):
            r.outcome, r.nontrivial = "n/a", False
            return r
        argv_root = []
    got = observe(root, c["tree"], argv_root=argv_root, cwd=str(cwd))
    d = differs(got, ref)
    if d:
        r.violation(f"cwd-or-root-spelling|{c['cwd']}|{sp}" + (f"|rootname={c['rootname']}" if c.get("rootname") else ""),
                    f"tree {c['tree']}, root directory {root.name!r}, cwd {c['cwd']}, root given as {argv_root}: {d}")
    r.outcome = "cwd-ok" if not d else "cwd-diff"
    r.evals = 4
    r.tags.append("cwd")
    return r


def ev_realpool(c) -> R:
    """Free-running real multiprocessing.Pool (sampling of real schedules;
    reported separately, never counted as exhaustive)."""
    r = R()
    if c["tree"] == "read-error":
        r.outcome, r.nontrivial = "n/a", False
        return r
    root = build(c["tree"])
    ref = observe(root, c["tree"])
    env = dict(os.environ)
    p = subprocess.run([PY, "-m", "reuse", "--root", str(root), "lint", "--json"], capture_output=True, text=True, env=env, timeout=300)
    q = subprocess.run([PY, "-m", "reuse", "--root", str(root), "spdx"], capture_output=True, text=True, env=env, timeout=300)
    if p.returncode not in (0, 1) or q.returncode != 0:
        r.violation(f"real-pool-failed|{c['tree']}", f"real pool run failed: {p.stderr[-300:]} {q.stderr[-300:]}")
        return r
    got = (norm_lint(p.stdout, str(root), str(root)), norm_spdx(q.stdout))
    d = differs(got, ref)
    if d:
        r.violation(f"real-pool|{c['tree']}", f"tree {c['tree']}, real multiprocessing.Pool: {d}")
    r.outcome = "realpool-ok"
    r.tags.append("realpool")
    r.nontrivial = False
    return r


def seed_probe():
    """Executed in a fresh interpreter (one per PYTHONHASHSEED): prints a
    digest of everything that must not depend on the seed."""
    from reuse.extract import extract_reuse_info

    out = {}
    toks = ["*/", "-->", "#}", ":)", "*)", "=#", "'/", "}", "--%>", "--}}", "*#", '">', "'>", "]::"]
    reader = []
    for a, b in itertools.permutations(toks, 2):
        text = (f"SPDX-License-Identifier: MIT {a}{b}\nSPDX-FileCopyrightText: 2020 Jane {a}{b}\nSPDX-FileContributor: Kim {a}{b}\n"
                f"SPDX-FileContributor: Lee {a} {b}\n")
        try:
            info = extract_reuse_info(text)
            reader.append((a, b, sorted(map(str, info.spdx_expressions)), sorted(info.copyright_lines), sorted(info.contributor_lines)))
        except Exception as e:
            reader.append((a, b, type(e).__name__))
    out["reader"] = reader
    # merging notices of one holder that carry different prefixes (a tie: which prefix wins must not depend on the seed)
    from reuse.copyright import merge_copyright_lines

    pre = ["SPDX-FileCopyrightText:", "SPDX-FileCopyrightText: (C)", "SPDX-FileCopyrightText: ©", "Copyright", "Copyright (C)", "Copyright ©", "©",
           "SPDX-FileCopyrightText: Copyright", "SPDX-FileCopyrightText: Copyright (C)", "SPDX-FileCopyrightText: Copyright ©"]
    merged = []
    for a, b in itertools.combinations(range(len(pre)), 2):
        lines = {f"{pre[a]} 2019 Jane Doe", f"{pre[b]} 2021 Jane Doe"}
        merged.append((a, b, sorted(merge_copyright_lines(set(lines)))))
    for a, b, c in itertools.combinations(range(len(pre)), 3):
        lines = {f"{pre[a]} 2019 Jane Doe", f"{pre[b]} 2021 Jane Doe", f"{pre[c]} 2023 Jane Doe"}
        merged.append((a, b, c, sorted(merge_copyright_lines(set(lines)))))
    out["merge"] = merged
    for name in NAMES:
        if name in ("read-error", "git", "git-submodule"):
            continue
        root = build(name, "c14seed")
        out[name] = observe(root, name)
    sys.stdout.write(canon(out))


def ev_seed(c) -> R:
    r = R()
    env = dict(os.environ)
    outs = []
    for s in (0, c["seed"]):
        env["PYTHONHASHSEED"] = str(s)
        p = subprocess.run([PY, "-c", "from mc.checks.c14 import seed_probe; seed_probe()"], cwd=str(VERIF), env=env,
                           capture_output=True, text=True, timeout=600)
        if p.returncode != 0:
            raise HarnessError(f"seed probe failed: {p.stderr[-500:]}")
        outs.append(json.loads(p.stdout))
    if outs[0] != outs[1]:
        where = [k for k in outs[0] if outs[0][k] != outs[1].get(k)]
        detail = ""
        if "reader" in where:
            for x, y in zip(outs[0]["reader"], outs[1]["reader"]):
                if x != y:
                    detail = f"reader on stacked terminators {x[0]!r} {x[1]!r}: seed 0 -> {x[2:]}, seed {c['seed']} -> {y[2:]}"
                    break
        r.violation("hash-seed|" + ("reader" if "reader" in where else where[0]),
                    f"PYTHONHASHSEED={c['seed']} gives different results than seed 0 in {where}; {detail}")
    r.outcome = "seed-ok" if not r.viol else "seed-diff"
    r.nontrivial = c["seed"] != 0
    r.evals = 2
    r.tags.append("seed")
    return r


def ev_relint(c) -> R:
    """History on one path inside one process: tree A is linted at path P, P is emptied and refilled with tree B, and B must be reported
    exactly as a B that is linted at a path never seen before (state keyed on a path - a cache - would make the contents' history show)."""
    import shutil

    r = R()
    a, b = c["a"], c["b"]
    ref_root = build(b, "c14ref")
    kw = {"multiprocessing": True, "pool": {"chunksize": 2, "order": None}} if c["mp"] else {}
    ref = observe(ref_root, b, **kw)
    base = fresh_dir("c14hist")
    root = base / "proj"
    root.mkdir()
    populate(a, root)
    first = observe(root, a, **kw)
    if first[0] == "failed":
        raise HarnessError(f"tree {a} cannot be linted: {first}")
    up = root.parent / (root.name + "-upstream")
    shutil.rmtree(root)
    if up.exists():
        shutil.rmtree(up)
    root.mkdir()
    populate(b, root)
    got = observe(root, b, **kw)
    d = differs(got, ref)
    if d:
        r.violation(f"history-on-one-path|{a}->{b}", f"path first held tree {a}, then tree {b} (same process{', pool' if c['mp'] else ''}): {d}")
    r.outcome = "relint-ok" if not d else "relint-diff"
    r.nontrivial = a != b
    r.evals = 6
    r.tags.append("relint")
    return r


_EV = {"relint": ev_relint, "sched": ev_sched, "listing": ev_listing, "cwd": ev_cwd, "realpool": ev_realpool, "seed": ev_seed}


def evaluate(c) -> R:
    return _EV[c["k"]](c)


def vacuity(st):
    for t in ("sched", "listing", "cwd", "seed", "relint"):
        if st.tags.get(t, 0) < 10:
            return f"slice {t} did not run"
    return None


def run(tier, seed):
    t0 = time.time()
    st = explore(MODULE, tier, seed)
    return finish(
        ID, "model_checking", MODULE, tier, seed, st, t0,
        rule=("8 trees x {every pool chunk size x chunk execution order on a virtual pool that pickles the callable per chunk; every directory-listing "
              "permutation (complete product or <= 2 deviating directories); 4 working directories x 6 root spellings; one fresh interpreter per "
              "PYTHONHASHSEED}; oracle = normalised lint --json and spdx output equal to the reference run; non-trivial = the run deviates from the "
              "default environment answer"),
        bounds=bounds(tier, seed),
        assumptions=["real OS scheduling of worker processes is replaced by the virtual pool (chunk = isolation unit, as Pool.map pickles the callable per task); "
                     "the single free-running real Pool run per tree is sampling and not counted",
                     "hash seeds: a stated finite range, not all 2^64"],
        vacuity=vacuity, sub_confirm=True,
    )
