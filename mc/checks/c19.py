"""C19 — download never overwrites and supplies exactly the missing licences.

E2 x E3: request sets x LICENSES/ states x network outcomes per identifier
(local stub, deviation-bounded: number of failing identifiers), invocation
directories x VCS, the option variants (--output, --source, --all), and
two-command histories.  Oracle: tree snapshot before/after, exit status,
URLs requested, and lint's missing_licenses after `download --all`.
"""
from __future__ import annotations

import contextlib
import errno
import itertools
import json
import os
import resource
import time

from .. import gitrepo
from ..cli import run_cli
from ..core import HarnessError, R, explore, finish, fresh_dir
from ..envctl import FaultPlan, faulty_open, stub_net, virtual_pool
from ..fstree import materialise, read_tree

ID = "C19"
MODULE = "mc.checks.c19"
IDS = ["MIT", "MIT+", "GPL-2.0+", "Classpath-exception-2.0", "LicenseRef-x.1", "Nope"]
FAILS = ["http404", "http500", "urlerror", "status204", "reset", "notutf8", "disconnected", "incomplete", "timeout"]
SENTINEL = "pre-existing sentinel content\n"
H = "# SPDX-FileCopyrightText: 2020 Jane\n"


def strip_plus(i):
    return i[:-1] if i.endswith("+") else i


def outcome_fn(assign):
    def f(ident):
        kind = assign.get(ident, "ok")
        if ident == "Nope":
            kind = "http404" if kind == "ok" else kind
        return {"ok": ("ok", f"text of {ident}\n".encode()), "http404": ("http", 404), "http500": ("http", 500), "urlerror": ("urlerror",),
                "status204": ("status", 204), "reset": ("reset",), "notutf8": ("notutf8",), "disconnected": ("disconnected",), "incomplete": ("incomplete",),
                "timeout": ("timeout",)}[kind]
    return f


def bounds(tier, seed):
    return {"identifiers": IDS, "request_set_size": 3, "licenses_states": ["absent", "empty", "target-present"], "failure_kinds": FAILS,
            "failing_identifiers_per_run": 2, "cwds": ["root", "subdir", "licenses"], "vcs": ["none", "git"],
            "options": ["none", "--output", "--source file", "--source dir", "--all"], "histories": "every ordered pair of 6 download commands"}


def cases(tier, seed):
    nfail = 2
    for n in range(1, 4):
        for req in itertools.combinations(IDS, n):
            net_ids = sorted({strip_plus(i) for i in req if not i.startswith("LicenseRef-") and i != "Nope"})
            for state in ("absent", "empty", "target-present"):
                for k in range(0, nfail + 1):
                    for failing in itertools.combinations(net_ids, k):
                        kinds = FAILS if tier == "thorough" or k <= 1 else FAILS[:2]
                        for ks in itertools.product(kinds, repeat=k):
                            yield {"k": "req", "req": list(req), "state": state, "assign": dict(zip(failing, ks))}
    for req in (["MIT"], ["GPL-2.0+", "LicenseRef-x.1"]):
        for cwd in ("root", "subdir", "licenses"):
            for vcs in ("none", "git"):
                for state in ("absent", "empty", "target-present"):
                    for rootopt in (False, True):
                        for fail in (None, "urlerror"):
                            yield {"k": "loc", "req": req, "cwd": cwd, "vcs": vcs, "state": state, "rootopt": rootopt, "fail": fail}
    # the project root is itself a directory called LICENSES
    for req in (["MIT"], ["GPL-2.0+", "LicenseRef-x.1"]):
        for vcs, rootopt, cwd in (("git", True, "root"), ("git", True, "outside"), ("git", False, "root"), ("none", False, "root"), ("none", True, "root"), ("none", True, "outside"), ("none", True, "elsewhere"), ("git", True, "elsewhere")):
            for state in ("absent", "empty"):
                yield {"k": "loc", "req": req, "cwd": cwd, "vcs": vcs, "state": state, "rootopt": rootopt, "fail": None, "rootname": "LICENSES"}
    for variant in ("output-new", "output-existing", "output-two-ids", "source-file", "source-dir", "source-missing", "source-dir-missing-file",
                    "source-existing-target", "source-existing-output", "source-dir-existing-output", "licenseref-existing-output", "all", "all-with-failure", "all-nothing-missing", "all-plus-id", "no-arguments",
                    "non-ascii-identifier", "all-with-non-ascii-identifier", "other-extension-present", "text-in-subdirectory-present", *LOCAL_FAILURES):
        for fail in (None, "http500"):
            yield {"k": "opt", "variant": variant, "fail": fail}
    cmds = [["MIT"], ["MIT+"], ["GPL-2.0+"], ["LicenseRef-x.1"], ["MIT", "Classpath-exception-2.0"], ["--all"]]
    for a, b in itertools.product(range(len(cmds)), repeat=2):
        for fail_first in (None, "reset"):
            yield {"k": "hist", "a": cmds[a], "b": cmds[b], "fail_first": fail_first}


# the transfer works, the local file system does not: a failure like any other - reported in the exit status, no debris, the rest of the batch goes on
LOCAL_FAILURES = ("output-under-file", "licenses-is-file", "target-is-directory", "source-entry-is-directory", "disk-full", "open-fails")


def base_tree(state, req_ids):
    rec = {"src/a.py": H + "# SPDX-License-Identifier: MIT AND GPL-2.0+ AND LicenseRef-x.1\n", "src/sub/b.py": H + "# SPDX-License-Identifier: 0BSD\n",
           "LICENSES_note.txt": "not the licences directory\n"}
    if state == "empty":
        rec["LICENSES"] = {"dir": True}
    elif state == "target-present":
        for i in req_ids:
            rec[f"LICENSES/{strip_plus(i)}.txt"] = SENTINEL
    return rec


def judge(r: R, label, sig, root, before, after, out, urls, expect_new, expect_fail, req_net):
    """expect_new: {relpath: expected bytes or None (any)}, expect_fail: bool"""
    if out.exc is not None and out.exc not in ("ConnectionResetError", "UnicodeDecodeError"):
        r.violation(f"crash|{sig}|{out.exc}", f"{label}: unhandled {out.exc_repr}")
    for p in before:
        if after.get(p) != before[p]:
            r.violation(f"existing-file-altered|{sig}", f"{label}: pre-existing {p} changed from {before[p][:40]!r} to {after.get(p, b'<deleted>')[:40]!r}")
    new = {p for p in after if p not in before}
    for p in sorted(new - set(expect_new)):
        r.violation(f"unexpected-file|{sig}", f"{label}: created {p} (content {after[p][:40]!r}); allowed new files: {sorted(expect_new)}")
    for p, want in expect_new.items():
        if want is not None and p in after and p not in before and after[p] != want:
            r.violation(f"wrong-content|{sig}", f"{label}: {p} holds {after[p][:60]!r}, expected {want[:60]!r}")
    if expect_fail is not None and (out.exit_code != 0) != expect_fail:
        r.violation(f"exit-status|{sig}", f"{label}: exit status {out.exit_code} but {'a failure' if expect_fail else 'no failure'} was expected; stdout {out.stdout[-200:]!r}")
    for u in urls:
        ident = u.rsplit("/", 1)[-1]
        if "LicenseRef-" in ident:
            r.violation(f"network-for-licenseref|{sig}", f"{label}: requested {u}")
        if ident.endswith("+.txt") and ident[:-4] not in ("GPL-2.0+",):
            r.violation(f"plus-in-url|{sig}", f"{label}: requested {u}")
    want_urls = {i + ".txt" for i in req_net}
    got_urls = {u.rsplit("/", 1)[-1] for u in urls}
    if not got_urls <= want_urls:
        r.violation(f"unexpected-url|{sig}", f"{label}: requested {sorted(got_urls)}, expected a subset of {sorted(want_urls)}")


def ev_req(c) -> R:
    r = R()
    root = fresh_dir("c19")
    materialise(root, base_tree(c["state"], c["req"]))
    before = read_tree(root)
    with stub_net(outcome_fn(c["assign"])) as urls:
        out = run_cli(["--root", str(root), "download", *c["req"]], cwd=str(root))
    after = read_tree(root)
    targets = sorted({strip_plus(i) for i in c["req"]})
    expect_new, fail = {}, False
    for t in targets:
        p = f"LICENSES/{t}.txt"
        if c["state"] == "target-present":
            fail = True
            continue
        if t.startswith("LicenseRef-"):
            expect_new[p] = b""
        elif t == "Nope" or t in c["assign"]:
            fail = True
        else:
            expect_new[p] = f"text of {t}\n".encode()
    aborted = False  # a transfer that fails in whatever way is reported; the other identifiers of the batch are still supplied
    if out.exc is not None:
        r.violation(f"crash|{'+'.join(sorted(set(c['assign'].values()))) or 'ok'}|{out.exc}", f"download {c['req']} with network {c['assign']}: unhandled {out.exc_repr}")
    label = f"download {c['req']} (LICENSES {c['state']}, network {c['assign'] or 'ok'})"
    sig = f"req|{c['state']}|{'+'.join(sorted(set(c['assign'].values()))) or 'ok'}"
    judge(r, label, sig, root, before, after, out, urls, expect_new, fail,
          [t for t in targets if not t.startswith("LicenseRef-")])
    if not aborted and out.exc is None:
        for p in expect_new:
            if p not in after:
                r.violation(f"not-downloaded|{sig}", f"{label}: {p} was not written; stdout {out.stdout[-200:]!r}")
    for t in targets:
        p = f"LICENSES/{t}.txt"
        if (t in c["assign"] or t == "Nope") and c["state"] != "target-present" and p in after:
            r.violation(f"partial-file|{sig}", f"{label}: transfer of {t} failed but {p} exists ({after[p][:40]!r})")
    r.outcome = f"exit{min(out.exit_code, 1)}" + ("-aborted" if out.exc else "")
    r.nontrivial = bool(c["assign"]) or c["state"] == "target-present"
    r.evals = 1
    r.tags.append("req")
    return r


def ev_loc(c) -> R:
    r = R()
    base = fresh_dir("c19")
    root = base / c.get("rootname", "proj")
    materialise(root, base_tree(c["state"], c["req"]))
    (root / "LICENSES").mkdir(exist_ok=True) if c["cwd"] == "licenses" else None
    if c["vcs"] == "git":
        gitrepo.init(root)
    cwd = {"root": root, "subdir": root / "src" / "sub", "licenses": root / "LICENSES", "outside": base, "elsewhere": base / "elsewhere"}[c["cwd"]]
    cwd.mkdir(exist_ok=True)
    before = read_tree(root)
    around = read_tree(base / "elsewhere") if c["cwd"] == "elsewhere" else None
    argv = (["--root", str(root)] if c["rootopt"] else []) + ["download", *c["req"]]
    assign = {strip_plus(c["req"][0]): c["fail"]} if c["fail"] else {}
    with stub_net(outcome_fn(assign)) as urls:
        out = run_cli(argv, cwd=str(cwd))
    after = read_tree(root)
    # where must the licences go?
    if c.get("rootname") == "LICENSES" and c["vcs"] == "none":
        ldir = "."  # documented special case: inside a directory called LICENSES that is no repository, that directory is the target
    elif c["rootopt"] or c["vcs"] == "git" or c["cwd"] == "root":
        ldir = "LICENSES"
    elif c["cwd"] == "licenses":
        ldir = "LICENSES"
    else:
        ldir = "src/sub/LICENSES"  # no VCS, no --root: the working directory is the project root
    targets = sorted({strip_plus(i) for i in c["req"]})
    expect_new, fail = {}, False
    for t in targets:
        p = f"{ldir}/{t}.txt" if ldir != "." else f"{t}.txt"
        if p in before:
            fail = True
        elif t.startswith("LicenseRef-"):
            expect_new[p] = b""
        elif t in assign:
            fail = True
        else:
            expect_new[p] = f"text of {t}\n".encode()
    label = f"download {c['req']} from {c['cwd']} ({c['vcs']}, {'--root' if c['rootopt'] else 'no --root'}, LICENSES {c['state']}, fail={c['fail']})"
    sig = f"loc|{c['cwd']}|{c['vcs']}|root={c['rootopt']}"
    judge(r, label, sig, root, before, after, out, urls, expect_new, fail, [t for t in targets if not t.startswith("LicenseRef-")])
    for p in expect_new:
        if p not in after:
            r.violation(f"not-downloaded|{sig}", f"{label}: {p} was not written; new files {sorted(set(after) - set(before))}; stdout {out.stdout[-200:]!r}")
    if around is not None and read_tree(base / "elsewhere") != around:
        r.violation(f"written-outside-root|{sig}", f"{label}: files appeared in the working directory, which is not in the project: {sorted(read_tree(base / 'elsewhere'))}")
    r.outcome = f"loc-exit{min(out.exit_code, 1)}"
    r.tags.append("loc")
    return r


def ev_opt(c) -> R:
    r = R()
    base = fresh_dir("c19")
    root = base / "proj"
    rec = base_tree("absent", [])
    v = c["variant"]
    src_dir = base / "srcs"
    materialise(src_dir, {"LicenseRef-x.1.txt": "custom licence text\n", "other.txt": "other\n"})
    argv, expect_new, fail, req_net = None, {}, False, []
    assign = {}
    if v == "output-new":
        argv = ["download", "--output", str(root / "out" / "COPY.txt"), "MIT"]
        rec["out/keep.txt"] = "keep\n"
        expect_new = {"out/COPY.txt": b"text of MIT\n"}
        req_net = ["MIT"]
    elif v == "output-existing":
        rec["COPY.txt"] = SENTINEL
        argv = ["download", "-o", str(root / "COPY.txt"), "MIT"]
        fail = True
        req_net = ["MIT"]
    elif v == "output-two-ids":
        argv = ["download", "-o", str(root / "COPY.txt"), "MIT", "0BSD"]
        fail = True
    elif v == "source-file":
        argv = ["download", "--source", str(src_dir / "LicenseRef-x.1.txt"), "LicenseRef-x.1"]
        expect_new = {"LICENSES/LicenseRef-x.1.txt": b"custom licence text\n"}
    elif v == "source-dir":
        argv = ["download", "--source", str(src_dir), "LicenseRef-x.1", "MIT"]
        expect_new = {"LICENSES/LicenseRef-x.1.txt": b"custom licence text\n", "LICENSES/MIT.txt": b"text of MIT\n"}
        req_net = ["MIT"]
    elif v == "source-missing":
        argv = ["download", "--source", str(src_dir / "nope.txt"), "LicenseRef-x.1"]
        fail = True
    elif v == "source-dir-missing-file":
        argv = ["download", "--source", str(src_dir), "LicenseRef-y"]
        fail = True
    elif v == "source-existing-target":
        rec["LICENSES/LicenseRef-x.1.txt"] = SENTINEL
        argv = ["download", "--source", str(src_dir), "LicenseRef-x.1"]
        fail = True
    elif v in ("source-existing-output", "source-dir-existing-output", "licenseref-existing-output"):
        # the explicit --output path exists already: never replaced, whatever the source of the text is
        rec["third-party/COPY.txt"] = SENTINEL
        argv = ["download", "--output", str(root / "third-party" / "COPY.txt")]
        if v == "source-existing-output":
            argv += ["--source", str(src_dir / "LicenseRef-x.1.txt")]
        elif v == "source-dir-existing-output":
            argv += ["--source", str(src_dir)]
        argv.append("LicenseRef-x.1")
        fail = True
    elif v in ("all", "all-with-failure"):
        argv = ["download", "--all"]
        expect_new = {"LICENSES/MIT.txt": b"text of MIT\n", "LICENSES/GPL-2.0.txt": b"text of GPL-2.0\n", "LICENSES/LicenseRef-x.1.txt": b"",
                      "LICENSES/0BSD.txt": b"text of 0BSD\n"}
        req_net = ["MIT", "GPL-2.0", "0BSD"]
        if v == "all-with-failure":
            assign = {"GPL-2.0": "urlerror"}
            expect_new.pop("LICENSES/GPL-2.0.txt")
            fail = True
    elif v == "all-nothing-missing":
        rec = {"src/a.py": H + "# SPDX-License-Identifier: MIT\n", "LICENSES/MIT.txt": SENTINEL}
        argv = ["download", "--all"]
    elif v == "all-plus-id":
        argv = ["download", "--all", "MIT"]
        fail = True
    elif v == "non-ascii-identifier":
        argv = ["download", "M\u00eft", "MIT"]
        expect_new = {"LICENSES/MIT.txt": b"text of MIT\n"}
        fail, req_net = True, ["M\u00eft", "MIT"]
    elif v == "all-with-non-ascii-identifier":
        rec["src/umlaut.py"] = H + "# SPDX-License-Identifier: 0BSD OR LicenseRef-Gesch\u00e4ft\n"
        argv = ["download", "--all"]
        fail = None
    elif v in ("other-extension-present", "text-in-subdirectory-present"):
        # the project already provides MIT, only not as LICENSES/MIT.txt
        rec["LICENSES/MIT.md" if v == "other-extension-present" else "LICENSES/third-party/MIT.txt"] = SENTINEL
        argv = ["download", "MIT"]
        fail = None
    elif v == "no-arguments":
        argv = ["download"]
        fail = None
    elif v == "output-under-file":
        rec["notes.txt"] = "keep\n"
        argv = ["download", "-o", str(root / "notes.txt" / "third-party" / "MIT.txt"), "MIT"]
        fail, req_net = True, ["MIT"]
    elif v == "licenses-is-file":
        rec["LICENSES"] = "not a directory\n"
        argv = ["download", "MIT", "0BSD"]
        fail, req_net = True, ["MIT", "0BSD"]
    elif v == "target-is-directory":
        rec["LICENSES/MIT.txt/README"] = "a directory of that name\n"
        argv = ["download", "MIT", "0BSD"]
        expect_new = {"LICENSES/0BSD.txt": b"text of 0BSD\n"}
        fail, req_net = True, ["MIT", "0BSD"]
    elif v == "source-entry-is-directory":
        materialise(base / "srcs2", {"LicenseRef-x.1.txt/README": "a directory of that name\n"})
        argv = ["download", "--source", str(base / "srcs2"), "LicenseRef-x.1", "0BSD"]
        expect_new = {"LICENSES/0BSD.txt": b"text of 0BSD\n"}
        fail, req_net = True, ["0BSD"]
    elif v == "disk-full":
        # (every write beyond the fifth byte of a file fails: RLIMIT_FSIZE for the time of the command)
        argv = ["download", "MIT", "0BSD"]
        fail, req_net = True, ["MIT", "0BSD"]
    elif v == "open-fails":
        argv = ["download", "MIT", "0BSD"]
        expect_new = {"LICENSES/0BSD.txt": b"text of 0BSD\n"}
        fail, req_net = True, ["MIT", "0BSD"]
    if c["fail"] and v in LOCAL_FAILURES:
        r.outcome, r.nontrivial = "n/a", False
        return r
    if c["fail"] and req_net:
        assign = dict(assign)
        assign[req_net[0]] = c["fail"]
        expect_new = {p: b for p, b in expect_new.items() if not p.endswith(f"/{req_net[0]}.txt") and not (v == "output-new")}
        fail = True
    elif c["fail"]:
        r.outcome, r.nontrivial = "n/a", False
        return r
    materialise(root, rec)
    before = read_tree(root)
    with contextlib.ExitStack() as stack:
        urls = stack.enter_context(stub_net(outcome_fn(assign)))
        stack.enter_context(virtual_pool({"chunksize": 1000}))
        if v == "open-fails":
            stack.enter_context(faulty_open(FaultPlan(lambda p: p.endswith("/LICENSES/MIT.txt"), err=errno.ENOSPC, modes="w")))
        if v == "disk-full":
            soft, hard = resource.getrlimit(resource.RLIMIT_FSIZE)
            resource.setrlimit(resource.RLIMIT_FSIZE, (5, hard))
            stack.callback(resource.setrlimit, resource.RLIMIT_FSIZE, (soft, hard))
        out = run_cli(["--root", str(root), *argv], cwd=str(root))
    after = read_tree(root)
    label = f"{' '.join(a if not a.startswith(str(base)) else os.path.relpath(a, base) for a in argv)} (network {assign or 'ok'})"
    sig = f"opt|{v}|{c['fail']}"
    if v == "all-with-non-ascii-identifier":
        # the odd identifier cannot be fetched; everything else that is missing must be there afterwards
        for p in ("LICENSES/MIT.txt", "LICENSES/GPL-2.0.txt", "LICENSES/0BSD.txt", "LICENSES/LicenseRef-x.1.txt"):
            if p not in after:
                r.violation(f"not-downloaded|{sig}", f"{label}: {p} was not written; stdout {out.stdout[-300:]!r}")
        if out.exc is not None:
            r.violation(f"crash|{sig}|{out.exc}", f"{label}: unhandled {out.exc_repr}")
        r.outcome = f"opt-exit{min(out.exit_code, 2)}"
        r.tags.append("opt")
        return r
    judge(r, label, sig, root, before, after, out, urls, expect_new, fail, req_net)
    for p in expect_new:
        if p not in after:
            r.violation(f"not-downloaded|{sig}", f"{label}: {p} was not written; stdout {out.stdout[-300:]!r}")
    if v.startswith("all") and out.exit_code == 0 and out.exc is None:
        with virtual_pool({"chunksize": 1000}):
            lint = run_cli(["--root", str(root), "--no-multiprocessing", "lint", "--json"])
        miss = json.loads(lint.stdout)["non_compliant"]["missing_licenses"]
        if miss:
            r.violation(f"all-leaves-missing|{sig}", f"{label}: exit 0 but lint still reports missing licences {sorted(miss)}")
    if out.exc is not None:
        r.violation(f"crash|{sig}|{out.exc}", f"{label}: unhandled {out.exc_repr}")
    if v in ("other-extension-present", "text-in-subdirectory-present"):
        # whatever download answers, the project must still load afterwards (two texts for one identifier are a configuration error)
        with virtual_pool({"chunksize": 1000}):
            lint = run_cli(["--root", str(root), "--no-multiprocessing", "lint", "--json"])
        if lint.exit_code == 2:
            r.violation(f"download-breaks-project|{v}", f"{label}: exit {out.exit_code}; afterwards every command stops with {lint.stderr[-200:]!r}")
    r.outcome = f"opt-exit{min(out.exit_code, 2)}"
    r.tags.append("opt")
    return r


def ev_hist(c) -> R:
    r = R()
    root = fresh_dir("c19")
    materialise(root, base_tree("absent", []))
    assign1 = {}
    if c["fail_first"]:
        ids = [strip_plus(i) for i in c["a"] if i not in ("--all",) and not i.startswith("LicenseRef-")] or ["MIT"]
        assign1 = {ids[0]: c["fail_first"]}
    with stub_net(outcome_fn(assign1)), virtual_pool({"chunksize": 1000}):
        first = run_cli(["--root", str(root), "download", *c["a"]], cwd=str(root))
    mid = read_tree(root)
    for p, b in mid.items():
        if p.startswith("LICENSES/") and not p.startswith("LICENSES/LicenseRef-") and not b:
            r.violation(f"hist-empty-file-after-first|{c['fail_first']}", f"download {c['a']} (network {assign1 or 'ok'}) left an empty {p}")
    with stub_net(outcome_fn({})), virtual_pool({"chunksize": 1000}):
        second = run_cli(["--root", str(root), "download", *c["b"]], cwd=str(root))
    after = read_tree(root)
    for p in mid:
        if after.get(p) != mid[p]:
            r.violation("hist-second-run-altered-file", f"download {c['a']} then download {c['b']}: {p} changed from {mid[p][:40]!r} to {after.get(p, b'<deleted>')[:40]!r}")
    for p in set(after) - set(mid):
        if not (p.startswith("LICENSES/") and p.endswith(".txt")):
            r.violation("hist-unexpected-file", f"download {c['a']} then {c['b']}: created {p}")
    want_b = sorted({strip_plus(i) for i in c["b"]}) if c["b"] != ["--all"] else []
    for t in want_b:
        if f"LICENSES/{t}.txt" in mid and second.exit_code == 0:
            r.violation("hist-existing-not-reported", f"download {c['a']} then {c['b']}: {t} already existed but exit status 0")
        if f"LICENSES/{t}.txt" not in after:
            r.violation(f"hist-not-downloaded|{c['fail_first']}", f"download {c['a']} (network {assign1 or 'ok'}) then download {c['b']}: LICENSES/{t}.txt missing; second stdout {second.stdout[-200:]!r}")
    r.outcome = f"hist-{min(first.exit_code, 1)}{min(second.exit_code, 1)}"
    r.transitions = 2
    r.evals = 2
    r.tags.append("hist")
    return r


_EV = {"req": ev_req, "loc": ev_loc, "opt": ev_opt, "hist": ev_hist}


def evaluate(c) -> R:
    return _EV[c["k"]](c)


def vacuity(st):
    for t in _EV:
        if st.tags.get(t, 0) < 5:
            return f"slice {t} did not run"
    return None


def run(tier, seed):
    t0 = time.time()
    st = explore(MODULE, tier, seed)
    return finish(
        ID, "model_checking", MODULE, tier, seed, st, t0,
        rule=("every request set (<= 3 of 6 identifiers) x 3 LICENSES/ states x every assignment of 6 failure kinds to at most N requested identifiers "
              "(N = failing_identifiers_per_run); 2 request sets x 3 invocation directories x {no VCS, Git} x --root x LICENSES/ state x failure; 13 option "
              "variants (--output, --source, --all) x failure; every ordered pair of 6 download commands (with and without a failure in the first); "
              "network = local stub that records URLs; non-trivial = some identifier fails or already exists"),
        bounds=bounds(tier, seed),
        assumptions=["the network is a local stub of urllib.request.urlopen", "a transfer that dies while the body is read may abort the batch; only 'no partial file, nothing altered, non-zero exit' is required then"],
        vacuity=vacuity,
    )
