"""C03 — exactly the covered files are examined.

E1: (i) name x place x kind product without VCS, (ii) Git repositories over
.gitignore rule sets with tracked / untracked / ignored files and directories
(Git's own check-ignore is the oracle), (iii) submodules and Meson subprojects
x the two --include options x working directories.  Four consumers must agree
with the reference set: lint --json, spdx, lint-file (given every path) and
annotate -r (files whose bytes changed or whose .license appeared).
"""
from __future__ import annotations

import itertools
import json
import os
import re
import shutil
import time

from .. import gitrepo
from ..cli import run_cli
from ..core import HarnessError, R, explore, finish, fresh_dir
from ..fstree import materialise, read_tree
from ..refmodel.covered import covered

ID = "C03"
MODULE = "mc.checks.c03"

NAMES = ["LICENSE", "LICENSE-MIT", "LICENSE.txt", "LICENSEX", "LICENCE", "LICENCE.md", "COPYING", "COPYING.md", "COPYINGX", "COPYING-x",
         "x.license", "x.licensex", "a.spdx", "b.spdx.json", "c.spdx.yml", "d.spdx.yaml", "e.spdx.rdf", "f.spdx.xml", "g.spdxx",
         "h.spdxXjson", "i.spdx.txt", "REUSE.toml", "REUSE.tomlx", "xREUSE.toml", ".gitkeep", "plain.py", "sp ace.txt", "ünï.txt",
         "license", "copying.txt", ".hidden", "CAL-1.0.txt", ".hgtags"]
DIR_NAMES = [".git", ".hg", ".sl", "LICENSES", ".reuse", "subprojects", "LICENSE", "x.license", "plaindir"]
LOCS = ["", "d/", "d/e/", "LICENSES/", ".reuse/", ".git/", ".hg/", "subprojects/p/", "subprojects/"]
KINDS = ["file", "empty", "symlink-file", "symlink-dir", "dir", "fifo"]
RULES = ["*.log", "build/", "!keep.log", "/top.txt", "d/*.tmp", "d/", "*~"]


def bounds(tier, seed):
    return {"names": len(NAMES), "dir_names": DIR_NAMES, "locations": LOCS, "kinds": KINDS,
            "packing": "one tree per (location, kind) with all names" + ("; plus every (name, location, kind) cell alone" if tier == "thorough" else "; plus the cells of location index seed % 9 alone"),
            "gitignore_rules": RULES, "rule_set_size": 3 if tier == "quick" else "all 64 subsets",
            "submodule_option_combinations": 4, "cwds": ["root", "subdir", "outside"]}


def cases(tier, seed):
    for loc in LOCS:
        for kind in KINDS:
            yield {"k": "names", "loc": loc, "kind": kind, "names": None}
    for li, loc in enumerate(LOCS):
        if tier == "thorough" or li == seed % len(LOCS):
            for kind in KINDS:
                for n in (NAMES if kind != "dir" else NAMES + DIR_NAMES):
                    yield {"k": "names", "loc": loc, "kind": kind, "names": [n]}
    n = 3 if tier == "quick" else len(RULES)
    for size in range(0, n + 1):
        for rs in itertools.combinations(range(len(RULES)), size):
            for nested in (False, True):
                yield {"k": "git", "rules": list(rs), "nested": nested}
            if size <= 2:
                yield {"k": "git", "rules": list(rs), "nested": False, "where": "global-excludes"}
                yield {"k": "git", "rules": list(rs), "nested": False, "where": "info-exclude"}
    for name in GITBYTES:
        yield {"k": "gitbytes", "name": name}
    for name in GITMETA:
        yield {"k": "gitmeta", "name": name}
    for sub in (False, True):
        for meson in (False, True):
            for cwd in ("root", "subdir", "outside"):
                yield {"k": "sub", "submodules": sub, "meson": meson, "cwd": cwd}


def names_recipe(loc, kind, names):
    """recipe + {relpath: kind} for every entry."""
    rec = {"zz_sentinel.py": "print('covered')\n", "target.txt": "target of links\n", "targetdir/in.txt": "in target dir\n"}
    if names is None:
        names = list(NAMES) + (DIR_NAMES if kind == "dir" else [])
    if loc == "LICENSES/":
        seen, keep = set(), []
        for n in names:
            stem = n[: n.rindex(".")] if "." in n.lstrip(".") else n
            if stem not in seen:
                seen.add(stem)
                keep.append(n)
        names = keep
        if kind in ("symlink-dir", "dir"):
            # every entry would resolve to the identifier of its inner file: duplicate identifiers are C16's subject
            names = names[:1]
    depth = loc.count("/")
    for n in names:
        p = loc + n
        if kind == "file":
            rec[p] = "version = 1\n" if n == "REUSE.toml" else f"content of {n}\n"
        elif kind == "empty":
            rec[p] = {"empty": True}
        elif kind == "symlink-file":
            rec[p] = {"symlink": "../" * depth + "target.txt"}
        elif kind == "symlink-dir":
            rec[p] = {"symlink": "../" * depth + "targetdir"}
        elif kind == "fifo":
            rec[p] = {"fifo": True}
        else:
            rec[p + "/inner.txt"] = f"inside directory {n}\n"
    return rec


def tree_kinds(root):
    """{relpath: kind} for every entry below root."""
    out = {}
    for dirpath, dirnames, filenames in os.walk(root, followlinks=False):
        for n in dirnames + filenames:
            p = os.path.join(dirpath, n)
            rel = os.path.relpath(p, root)
            if os.path.islink(p):
                out[rel] = "symlink"
            elif os.path.isdir(p):
                out[rel] = "dir"
            elif not os.path.isfile(p):
                out[rel] = "special"
            else:
                out[rel] = "empty" if os.path.getsize(p) == 0 else "file"
    return out


def reference_sets(root, opts=None, ignored=()):
    kinds = tree_kinds(root)
    cov, unspec = set(), set()
    for rel, k in kinds.items():
        if k == "dir":
            continue
        parts = rel.split("/")
        ks = [kinds["/".join(parts[: i + 1])] for i in range(len(parts))]
        c = covered(parts, ks, opts)
        if c is None:
            unspec.add(rel)
        elif c and rel not in ignored:
            cov.add(rel)
    return cov, unspec, kinds


class ToolFailure(Exception):
    """A consumer ended in an exception or an exit status it does not have on a well-formed tree."""

    def __init__(self, cmd, out):
        super().__init__(f"{cmd} failed: {out.brief()}")
        self.cmd, self.out = cmd, out


def consumers(root, extra=(), cwd=None, do_annotate=True):
    """examined sets of the four consumers (paths relative to root)."""
    base = [*extra, "--root", str(root), "--no-multiprocessing"]
    out = {}
    lint = run_cli(base + ["lint", "--json"], cwd=cwd)
    if lint.exc or lint.exit_code not in (0, 1):
        raise ToolFailure("lint", lint)
    out["lint"] = {f["path"] for f in json.loads(lint.stdout)["files"]}
    spdx = run_cli(base + ["spdx"], cwd=cwd)
    if spdx.exc or spdx.exit_code != 0:
        raise ToolFailure("spdx", spdx)
    out["spdx"] = {l[len("FileName: ./"):] for l in spdx.stdout.split("\n") if l.startswith("FileName: ./")}
    kinds = tree_kinds(root)
    args = [str(root / p) for p, k in kinds.items() if k in ("file", "empty", "special") or (k == "symlink" and os.path.exists(root / p))]
    lf = run_cli(base + ["lint-file", *args], cwd=cwd)
    if lf.exc or lf.exit_code not in (0, 1):
        raise ToolFailure("lint-file", lf)
    seen = set()
    pre = str(root) + "/"
    for line in lf.stdout.split("\n"):
        m = re.match(r"^(.*): (no license identifier|no copyright notice|read error|missing license \S+)$", line)
        if m:
            p = m.group(1)
            seen.add(p[len(pre):] if p.startswith(pre) else p)
    out["lint-file"] = seen
    # the same files spelled with a '..' component, relative to the root
    some_dir = next((p for p, k in sorted(kinds.items()) if k == "dir" and "/" not in p and not p.startswith(".")), None)
    if some_dir and cwd is None:
        rel_args = [os.path.join(some_dir, "..", os.path.relpath(a, root)) for a in args]
        lf2 = run_cli([*extra, "--root", str(root), "--no-multiprocessing", "lint-file", *rel_args], cwd=str(root))
        if lf2.exc or lf2.exit_code not in (0, 1):
            raise ToolFailure("lint-file (dotdot spelling)", lf2)
        seen2 = set()
        for line in lf2.stdout.split("\n"):
            m = re.match(r"^(.*): (no license identifier|no copyright notice|read error|missing license \S+)$", line)
            if m:
                q = os.path.normpath(os.path.join(str(root), m.group(1))) if not os.path.isabs(m.group(1)) else m.group(1)
                seen2.add(q[len(pre):] if q.startswith(pre) else q)
        out["lint-file-dotdot"] = seen2
    if do_annotate:
        before = read_tree(root)
        an = run_cli(base + ["annotate", "--copyright", "Jane", "--year", "2020", "--recursive", "--fallback-dot-license", str(root)], cwd=cwd)
        if an.exc or an.exit_code not in (0, 1):
            raise ToolFailure("annotate -r", an)
        after = read_tree(root)
        ex = set()
        for p in set(after) | set(before):
            if after.get(p) != before.get(p):
                ex.add(p[: -len(".license")] if p.endswith(".license") and p not in before else p)
        out["annotate-r"] = ex
    return out


def annotate_subdirs(root, cov, unspec, extra=(), cwd=None):
    """`annotate -r DIR` for every directory of the tree (also those inside
    excluded regions), each on the untouched tree: returns {dir: (examined,
    expected)}.  The tree is restored after every run."""
    import shutil

    kinds = tree_kinds(root)
    dirs = sorted(p for p, k in kinds.items() if k == "dir" and not p.startswith(".git"))
    out = {}
    backup = str(root) + ".bak"
    if os.path.exists(backup):
        shutil.rmtree(backup)
    shutil.copytree(root, backup, symlinks=True)
    for d in dirs:
        before = read_tree(root)
        an = run_cli([*extra, "--root", str(root), "annotate", "--copyright", "Jane", "--year", "2020", "--recursive", "--fallback-dot-license", str(root / d)], cwd=cwd)
        if an.exc or an.exit_code not in (0, 1, 2):
            raise ToolFailure(f"annotate -r {d}", an)
        after = read_tree(root)
        ex = set()
        for p in set(after) | set(before):
            if after.get(p) != before.get(p):
                ex.add(p[: -len(".license")] if p.endswith(".license") and p not in before else p)
        want = {p for p in cov if p.startswith(d + "/")}
        open_ = {p for p in unspec if p.startswith(d + "/")}
        out[d] = (ex, want, open_)
        if ex:
            shutil.rmtree(root)
            shutil.copytree(backup, root, symlinks=True)
    shutil.rmtree(backup)
    return out


def compare(r: R, label, sigbase, cov, unspec, got):
    for who, s in got.items():
        extra = sorted(p for p in s - cov if p not in unspec)
        missing = sorted(p for p in cov - s)
        r.validated += 1
        for p in extra:
            r.violation(f"{who}|examined-excluded|{sigbase.split('|')[0]}|{shape_of(p)}", f"{label}: {who} examines {p!r}, which is not a covered file")
        for p in missing:
            r.violation(f"{who}|skipped-covered|{sigbase.split('|')[0]}|{shape_of(p)}", f"{label}: {who} skips the covered file {p!r}")


def shape_of(p):
    """Signature class of a path: its base name with directories abstracted."""
    parts = p.split("/")
    return ("" if len(parts) == 1 else "*/") + parts[-1]


def ev_names(c) -> R:
    r = R()
    root = fresh_dir("c03")
    materialise(root, names_recipe(c["loc"], c["kind"], c["names"]))
    cov, unspec, kinds = reference_sets(root)
    r.validated = 0
    got = consumers(root)
    label = f"names at {c['loc'] or './'} as {c['kind']}" + (f" ({c['names'][0]})" if c["names"] else "")
    compare(r, label, "names", cov, unspec, got)
    if c["names"] is None and c["kind"] != "fifo":
        root = fresh_dir("c03")
        materialise(root, names_recipe(c["loc"], c["kind"], c["names"]))
        for d, (ex, want, open_) in annotate_subdirs(root, cov, unspec).items():
            r.validated += 1
            for p in sorted(p for p in ex - want if p not in open_):
                r.violation(f"annotate-r-subdir|examined-excluded|names|{shape_of(p)}", f"{label}: `annotate -r {d}` touches {p!r}, which is not a covered file")
            for p in sorted(want - ex):
                r.violation(f"annotate-r-subdir|skipped-covered|names|{shape_of(p)}", f"{label}: `annotate -r {d}` skips the covered file {p!r}")
    r.evals = 4
    r.outcome = f"covered={min(len(cov), 3)}"
    r.nontrivial = len(cov) > 1
    r.tags.append("names")
    r.transitions = len(kinds)
    return r


GIT_FILES = {
    "a.log": "u", "keep.log": "u", "t.log": "t", "top.txt": "u", "d/top.txt": "u", "d/x.tmp": "u", "d/y.py": "t", "d/z.py": "u",
    "build/out.o": "u", "build/sub/deep.o": "u", "build/tracked.o": "t", "e/build/z.o": "u", "untracked_dir/u.py": "u", "untracked_dir/v.log": "u",
    "tracked_dir/w.py": "t", "tracked_dir/n.log": "u", "plain.py": "t", "other.txt": "u",
    "untracked_dir/sub/w.log": "u", "untracked_dir/sub/k.py": "u", "untracked_dir/build/x.o": "u", "only_ignored/a.log": "u", "only_ignored/b.log": "u",
    "d/keep.log": "u", "d/e/f.tmp": "u",
    # siblings whose names merely begin like an ignored directory's name
    "e/build.log": "u", "e/build-x/k.py": "u", "e/buildx.tmp": "u", "build.log": "u", "build-cache/c.py": "u", "buildx.py": "u", "d.log": "u", "d-extra/x.tmp": "u", "dx.tmp": "u",
}


def git_ignored(root, paths):
    """Git's own answer: untracked paths for which check-ignore says yes."""
    tracked = set(gitrepo.git(root, "ls-files", "-z").stdout.split("\0"))
    out = set()
    for p in paths:
        if p in tracked:
            continue
        if gitrepo.git(root, "check-ignore", "-q", "--", p, check=False).returncode == 0:
            out.add(p)
    return out


def ev_git(c) -> R:
    r = R()
    root = fresh_dir("c03")
    rec = {p: f"content {p}\n" for p in GIT_FILES}
    rules = [RULES[i] for i in c["rules"]]
    rec["LICENSES/MIT.txt"] = "licence text\n"
    if "*~" in rules:
        # an editor's backup copy of a licence text, ignored by Git: it is no second text for MIT, and no file of the project at all
        rec["LICENSES/MIT.txt~"] = "older licence text\n"
        rec["d/y.py~"] = "backup\n"
    if "build/" in rules:
        # a whole ignored directory below LICENSES/ (Git lists only the directory, not the files in it)
        rec["LICENSES/build/MIT.txt"] = "a copy made by some build step\n"
        rec["LICENSES/build/LicenseRef-generated.txt"] = "generated\n"
    materialise(root, rec)
    gitrepo.git(root, "init", "-q")
    tracked = [p for p, s in GIT_FILES.items() if s == "t"] + ["LICENSES/MIT.txt"]
    gitrepo.git(root, "add", "-f", "--", *tracked)
    if c["nested"]:
        (root / "d" / ".gitignore").write_text("*.tmp\n!x.tmp\nz.py\n")
    where = c.get("where", "gitignore")
    saved = {k: os.environ.get(k) for k in ("GIT_CONFIG_GLOBAL", "VERIF_GIT_GLOBAL_OVERRIDE")}
    if where == "gitignore":
        (root / ".gitignore").write_text("".join(x + "\n" for x in rules))
    elif where == "info-exclude":
        (root / ".git" / "info").mkdir(exist_ok=True)
        (root / ".git" / "info" / "exclude").write_text("".join(x + "\n" for x in rules))
    else:
        # the user's global excludes file (core.excludesFile), reached through the environment the tool hands to git
        gdir = root.parent / (root.name + "-home")
        gdir.mkdir(exist_ok=True)
        (gdir / "ignore").write_text("".join(x + "\n" for x in rules))
        (gdir / "gitconfig").write_text(f"[core]\n\texcludesFile = {gdir / 'ignore'}\n")
        os.environ["GIT_CONFIG_GLOBAL"] = str(gdir / "gitconfig")
        os.environ["VERIF_GIT_GLOBAL_OVERRIDE"] = "1"
    try:
        kinds = tree_kinds(root)
        files = [p for p, k in kinds.items() if k == "file" and not p.startswith(".git/")]
        ign = git_ignored(root, files)
        cov, unspec, _ = reference_sets(root, ignored=ign)
        r.validated = 0
        got = consumers(root, do_annotate=(where == "gitignore"))
    finally:
        for k, v in saved.items():
            if v is None:
                os.environ.pop(k, None)
            else:
                os.environ[k] = v
    label = f"git repo with {where} rules {rules}{' + d/.gitignore' if c['nested'] else ''}"
    compare(r, label, "git", cov, unspec, got)
    if where != "gitignore":
        r.evals = 4
        r.outcome = f"ignored={min(len(ign), 4)}"
        r.nontrivial = bool(ign)
        r.tags.append("git")
        r.tags.append(where)
        return r
    root = fresh_dir("c03")
    materialise(root, rec)
    gitrepo.git(root, "init", "-q")
    gitrepo.git(root, "add", "-f", "--", *tracked)
    if c["nested"]:
        (root / "d" / ".gitignore").write_text("*.tmp\n!x.tmp\nz.py\n")
    (root / ".gitignore").write_text("".join(x + "\n" for x in rules))
    for d, (ex, want, open_) in annotate_subdirs(root, cov, unspec).items():
        r.validated += 1
        for p in sorted(p for p in ex - want if p not in open_ and not p.startswith(".git/")):
            r.violation(f"annotate-r-subdir|examined-excluded|git|{shape_of(p)}", f"{label}: `annotate -r {d}` touches {p!r}, which is not a covered file")
    r.evals = 4
    r.outcome = f"ignored={min(len(ign), 4)}"
    r.nontrivial = bool(ign)
    r.tags.append("git")
    if "untracked_dir/v.log" in ign:
        r.tags.append("ignored-in-untracked-dir")
    return r


def ev_sub(c) -> R:
    r = R()
    base = fresh_dir("c03")
    up = base / "upstream"
    materialise(up, {"lib.c": "int lib;\n", "README": "readme\n", ".gitignore": "*.o\nout/\n"})
    gitrepo.init(up, add=True, commit=True)
    root = base / "proj"
    materialise(root, {"main.py": "print(1)\n", "src/app.py": "x = 1\n", "subprojects/wrap.wrap": "[wrap]\n", "subprojects/p/meson.c": "int m;\n",
                       "subprojects/p/deep/x.c": "int x;\n", "docs/readme.md": "doc\n"})
    gitrepo.git(root, "init", "-q")
    gitrepo.git(root, "submodule", "add", "-q", str(up), "vendor/libsub")
    gitrepo.git(root, "submodule", "add", "-q", str(up), "subprojects/subsub")
    gitrepo.git(root, "add", "-A")
    # build products inside the checked-out submodules, ignored by the submodule's own .gitignore
    sub_ignored = set()
    for sm in ("vendor/libsub", "subprojects/subsub"):
        materialise(root / sm, {"lib.o": "object\n", "out/gen.c": "int gen;\n"})
        for rel in ("lib.o", "out/gen.c"):
            if gitrepo.git(root / sm, "check-ignore", "-q", "--", rel, check=False).returncode != 0:
                raise HarnessError(f"{sm}/{rel} is not ignored inside the submodule")
            sub_ignored.add(f"{sm}/{rel}")
    opts = {"meson": c["meson"], "submodules": c["submodules"], "submodule_dirs": {("vendor", "libsub"), ("subprojects", "subsub")}}
    cov, unspec, _ = reference_sets(root, opts, ignored=sub_ignored)
    cov = {p for p in cov if not p.startswith(".git/")}
    extra = (["--include-submodules"] if c["submodules"] else []) + (["--include-meson-subprojects"] if c["meson"] else [])
    cwd = {"root": str(root), "subdir": str(root / "src"), "outside": str(base)}[c["cwd"]]
    r.validated = 0
    got = consumers(root, extra=extra, cwd=cwd, do_annotate=False)
    label = f"repo with submodules vendor/libsub + subprojects/subsub, options {extra}, cwd {c['cwd']}"
    compare(r, label, f"sub|sm={c['submodules']}|meson={c['meson']}", cov, unspec, got)
    r.evals = 3
    r.outcome = f"sub={c['submodules']},meson={c['meson']}"
    r.tags.append("sub")
    return r


GITBYTES = {
    # (path with the undecodable byte as a lone surrogate, .gitignore)
    "ignored-file": ("bad\udcff.log", "*.log\n"), "ignored-dir": ("caf\udce9dir/x.py", "caf*/\n"), "file-in-ignored-dir": ("build/bad\udcfe.o", "build/\n"),
    "ignored-latin1-name": ("na\udcefve.tmp", "*.tmp\n"),
}


def ev_gitbytes(c) -> R:
    """A Git-ignored path whose name is not valid UTF-8 (never printed, only compared)."""
    r = R()
    root = fresh_dir("c03")
    name, rules = GITBYTES[c["name"]]
    rec = {"a.py": "a = 1\n", "d/b.py": "b = 1\n", "keep.txt": "k\n", name: "ignored content\n"}
    materialise(root, rec)
    gitrepo.git(root, "init", "-q")
    gitrepo.git(root, "add", "-f", "--", "a.py")
    (root / ".gitignore").write_text(rules)
    if gitrepo.git(root, "check-ignore", "-q", "--", name, check=False).returncode != 0:
        raise HarnessError(f"{name!r} is not ignored by {rules!r}")
    cov, unspec, _ = reference_sets(root, ignored={name})
    r.validated = 0
    got = consumers(root, do_annotate=True)
    compare(r, f"git repo with an ignored path named {name!r}", "gitbytes", cov, unspec, got)
    r.evals = 5
    r.outcome = "gitbytes"
    r.tags.append("gitbytes")
    return r


GITMETA = {
    # .gitmodules content that names a plain, tracked directory without making it a submodule
    "foreign-section-with-path-key": '[mytool "x"]\n\tpath = src\n',
    "foreign-dotted-key": '[core]\n\tsome.path = src\n[tool]\n\tpath = docs\n',
    "commented-out-submodule": '# [submodule "old"]\n#\tpath = src\n',
}


def ev_gitmeta(c) -> R:
    r = R()
    root = fresh_dir("c03")
    rec = {"a.py": "a = 1\n", "src/b.py": "b = 1\n", "src/deep/c.py": "c = 1\n", "docs/d.md": "d\n", ".gitmodules": GITMETA[c["name"]]}
    materialise(root, rec)
    gitrepo.git(root, "init", "-q")
    gitrepo.git(root, "add", "-A")
    cov, unspec, _ = reference_sets(root)
    r.validated = 0
    got = consumers(root, do_annotate=True)
    compare(r, f"git repo whose .gitmodules is {c['name']} ({GITMETA[c['name']]!r}) - no submodule is registered", f"gitmeta|{c['name']}", cov, unspec, got)
    r.evals = 5
    r.outcome = "gitmeta"
    r.tags.append("gitmeta")
    return r


_EV = {"names": ev_names, "git": ev_git, "sub": ev_sub, "gitbytes": ev_gitbytes, "gitmeta": ev_gitmeta}


def evaluate(c) -> R:
    try:
        return _EV[c["k"]](c)
    except ToolFailure as e:
        # every tree built here is a well-formed project: a consumer that cannot finish examines nothing at all
        r = R()
        what = e.out.exc if e.out.exc else f"exit{e.out.exit_code}"
        r.violation(f"consumer-failed|{c['k']}|{e.cmd}|{what}", f"case {c}: `{e.cmd}` did not finish: {e.out.brief()}")
        r.outcome = "consumer-failed"
        r.tags.append(c["k"])
        return r


def vacuity(st):
    for t in _EV:
        if st.tags.get(t, 0) < (4 if t != "gitmeta" else 2):
            return f"slice {t} did not run"
    return None


def run(tier, seed):
    t0 = time.time()
    st = explore(MODULE, tier, seed)
    return finish(
        ID, "model_checking", MODULE, tier, seed, st, t0,
        rule=("complete product name (33 + 9 directory names) x location (9) x kind (5) packed per (location, kind) and cell by cell; Git repositories for "
              "every .gitignore rule set up to the size bound x nested .gitignore, with tracked/untracked/ignored files and directories, Git's "
              "check-ignore as oracle; submodule/Meson trees x 4 option combinations x 3 working directories; examined sets of lint --json, spdx, "
              "lint-file and annotate -r compared with refmodel.covered; non-trivial = the tree has covered files besides the sentinel / ignored files"),
        bounds=bounds(tier, seed),
        assumptions=["LICENSES/ and .reuse/ below the root, non-top-level subprojects/, lower-case LICENSE-like names, CAL-1.0*/SHL-2.1*, '.git' files and .hgtags are unspecified and not asserted",
                     "only the no-VCS and Git strategies can run here (hg, jj, pijul are not installed)"],
        vacuity=vacuity,
    )
