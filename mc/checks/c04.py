"""C04 — per-file sources and precedence follow the specification.

E1, complete finite product: 24 file states (own content x .license sibling)
x every chain of nested REUSE.toml files (each level absent, one matching
table, or two matching tables of which the first is a decoy).  One lint run
judges all 24 file states of a chain.  Plus the .reuse/dep5 analogue.
"""

from __future__ import annotations

import itertools
import json
import time

from ..core import HarnessError, R, explore, finish, fresh_dir
from ..fstree import materialise
from ..lintutil import PNG_HEX, file_items, lint_json
from ..refmodel import precedence as ref

ID = "C04"
MODULE = "mc.checks.c04"

OWN = ["none", "c", "l", "both", "bad", "bin"]
SIB = ["absent", "empty", "c", "full"]
PREC = ["closest", "aggregate", "override"]
INFO = ["none", "c", "l", "both"]
DIR_VARIANTS = [("d1", "d2"), ("Lib", "3rdparty"), (".config", "A b"), ("-vendor", "+x"), ("(app)", "#a")]


def dirs_of(case):
    a, b = DIR_VARIANTS[case.get("dirs", 0)]
    return ["", f"{a}/", f"{a}/{b}/"]
T_LIC = ["MIT", "Zlib", "X11"]
D_LIC = ["curl", "Beerware", "Unlicense"]

SINGLE = [(p, i) for p in PREC for i in INFO]  # 12


def level_options(decoys: bool):
    opts = [None] + [[t] for t in SINGLE]
    if decoys:
        for main in SINGLE:
            for dp, di in (("closest", "both"), ("aggregate", "l"), ("override", "c")):
                if (dp, di) == main:
                    di = "both" if di != "both" else "c"
                opts.append([(dp, di), main])
    return opts


def bounds(tier, seed):
    return {"file_states": 24, "levels": 3,
            "quick": "3 levels without decoys (13^3) + 2 innermost levels with decoys (49^2) + dep5 cells",
            "thorough": "3 levels with decoys (49^3) + dep5 cells",
            "tier": tier}


def cases(tier, seed):
    if tier == "quick":
        o = level_options(False)
        for ch in itertools.product(o, repeat=3):
            yield {"chain": list(ch)}
        # directory names that sort before / after 'REUSE.toml', with blanks and a leading dot
        for dv in range(1, len(DIR_VARIANTS)):
            for ch in itertools.product(o, repeat=3):
                if sum(1 for x in ch if x is not None) >= 2:
                    yield {"chain": list(ch), "dirs": dv}
        od = level_options(True)
        for ch in itertools.product(od, repeat=2):
            if all(x is None or len(x) == 1 for x in ch):
                continue
            yield {"chain": [None, *ch]}
            # the same with the decoy (first) table naming the files literally and the last table a glob
            yield {"chain": [None, *ch], "literal_decoy": True}
        # seed slice: decoys on the outermost level, one fixed inner option pair rotated by seed
        inner = od[1 + seed % (len(od) - 1)]
        for x in od:
            if x is not None and len(x) == 2:
                yield {"chain": [x, inner, None]}
    else:
        od = level_options(True)
        for ch in itertools.product(od, repeat=3):
            yield {"chain": list(ch)}
        for ch in itertools.product(od, repeat=2):
            if not all(x is None or len(x) == 1 for x in ch):
                yield {"chain": [None, *ch], "literal_decoy": True}
        o = level_options(False)
        for dv in range(1, len(DIR_VARIANTS)):
            for ch in itertools.product(o, repeat=3):
                yield {"chain": list(ch), "dirs": dv}
    o2 = level_options(False)
    for ch in itertools.product(o2, repeat=2 if tier == "quick" else 3):
        if any(x is not None for x in ch):
            yield {"chain": ([None] if tier == "quick" else []) + list(ch), "same": True}
    for opt_sub in (False, True):
        for opt_meson in (False, True):
            for p in PREC:
                yield {"subproject": p, "submodules": opt_sub, "meson": opt_meson}
    for p in PREC:
        yield {"ignored_toml": p}
    for n in (0, 1, 2):
        yield {"dep5": n}
    yield {"dep5": 1, "conflict": True}


def own_text(o):
    if o == "none":
        return "print('x')\n"
    if o == "c":
        return "# SPDX-FileCopyrightText: 2020 Own\nprint('x')\n"
    if o == "l":
        return "# SPDX-License-Identifier: 0BSD\nprint('x')\n"
    if o == "both":
        return "# SPDX-FileCopyrightText: 2020 Own\n# SPDX-License-Identifier: 0BSD\nprint('x')\n"
    if o == "bad":
        return "# SPDX-FileCopyrightText: 2020 Own\n# SPDX-License-Identifier: 0BSD AND AND\nprint('x')\n"
    return {"hex": PNG_HEX}


def own_info(o):
    return {"none": None, "bad": None, "bin": None, "c": ({"SPDX-FileCopyrightText: 2020 Own"}, set()),
            "l": (set(), {"0BSD"}), "both": ({"SPDX-FileCopyrightText: 2020 Own"}, {"0BSD"})}[o]


SAME = {"on": False}  # every source states the *same* copyright line and licence (only the source differs)
SAME_C, SAME_L = "SPDX-FileCopyrightText: 2020 Own", "0BSD"


def sib_text(s):
    c, l = (SAME_C, SAME_L) if SAME["on"] else ("SPDX-FileCopyrightText: 2021 Sib", "ISC")
    return {"empty": {"empty": True}, "c": f"{c}\n", "full": f"{c}\nSPDX-License-Identifier: {l}\n"}[s]


def sib_info(s):
    c, l = (SAME_C, SAME_L) if SAME["on"] else ("SPDX-FileCopyrightText: 2021 Sib", "ISC")
    return {"absent": None, "empty": (set(), set()), "c": ({c}, set()), "full": ({c}, {l})}[s]


def table_info(level, i, decoy):
    if SAME["on"] and not decoy:
        return ({SAME_C} if i in ("c", "both") else set()), ({SAME_L} if i in ("l", "both") else set())
    c = {f"2022 {'D' if decoy else 'T'}{level}"} if i in ("c", "both") else set()
    l = {(D_LIC if decoy else T_LIC)[level]} if i in ("l", "both") else set()
    return c, l


def toml_text(level, tables, literal_paths=None):
    out = ["version = 1", ""]
    for k, (p, i) in enumerate(tables):
        decoy = len(tables) == 2 and k == 0
        c, l = table_info(level, i, decoy)
        path = json.dumps(literal_paths) if (decoy and literal_paths) else '"**"'
        out += ["[[annotations]]", f"path = {path}", f'precedence = "{p}"']
        if c:
            out.append("SPDX-FileCopyrightText = %s" % json.dumps(sorted(c)[0]))
        if l:
            out.append("SPDX-License-Identifier = %s" % json.dumps(sorted(l)[0]))
        out.append("")
    return "\n".join(out)


def fname(o, s):
    return f"f_{o}_{s}.py" if o != "bin" else f"f_{o}_{s}.png"


def shape(chain):
    parts = []
    for lv in chain:
        if lv is None:
            parts.append("-")
        else:
            parts.append(("decoy+" if len(lv) == 2 else "") + f"{lv[-1][0]}:{lv[-1][1]}")
    return ">".join(parts)


def coarse_sig(o, s, chain, mc, ml, oc, ol, got_c, got_l):
    """Signature of a disagreement: kind of effective file information, the
    precedences of the effective tables, and what kind of item is missing /
    extra (attribute + source type)."""
    fi = sib_info(s) if s != "absent" else own_info(o)
    fk = "none" if not fi or not (fi[0] or fi[1]) else ("both" if fi[0] and fi[1] else ("c" if fi[0] else "l"))
    kinds = []
    for lv in chain:
        if lv is not None:
            kinds.append(lv[-1][0] + ":" + lv[-1][1])
            if lv[-1][0] == "override":
                break
    d = []
    for attr, must, opt, got in (("c", mc, oc, got_c), ("l", ml, ol, got_l)):
        for it in sorted(must - got):
            d.append(f"missing-{attr}-{it[2]}")
        for it in sorted(got - must - opt):
            d.append(f"extra-{attr}-{it[2]}")
    return f"file={fk}|chain={'>'.join(k.split(':')[0] for k in kinds)}|{'+'.join(sorted(set(d)))}"


def evaluate_subproject(case) -> R:
    """A REUSE.toml inside a Meson subproject is a source exactly when the
    subproject is included (and is not consulted through the other option)."""
    from .. import gitrepo

    r = R()
    root = fresh_dir("c04")
    p = case["subproject"]
    rec = {"REUSE.toml": 'version = 1\n\n[[annotations]]\npath = "**"\nprecedence = "aggregate"\nSPDX-FileCopyrightText = "2022 Root"\n',
           "subprojects/lib/REUSE.toml": f'version = 1\n\n[[annotations]]\npath = "**"\nprecedence = "{p}"\nSPDX-FileCopyrightText = "2022 Sub"\nSPDX-License-Identifier = "MIT"\n',
           "subprojects/lib/code.c": "/* SPDX-License-Identifier: 0BSD */\nint x;\n", "subprojects/lib/plain.txt": "text\n", "main.c": "int m;\n"}
    materialise(root, rec)
    gitrepo.init(root)
    extra = (["--include-submodules"] if case["submodules"] else []) + (["--include-meson-subprojects"] if case["meson"] else [])
    out, data = lint_json(root, extra=extra)
    if data is None:
        raise HarnessError(f"lint failed: {out.brief()}")
    files = {f["path"] for f in data["files"]}
    want_files = {"main.c"} | ({"subprojects/lib/code.c", "subprojects/lib/plain.txt"} if case["meson"] else set())
    if files != want_files:
        r.violation(f"subproject-files|meson={case['meson']}|sm={case['submodules']}", f"options {extra}: files {sorted(files)}, expected {sorted(want_files)}")
    r.validated = 1
    if case["meson"]:
        for path, own in (("subprojects/lib/code.c", (set(), {"0BSD"})), ("subprojects/lib/plain.txt", None)):
            items = file_items(data, path)
            if items is None:
                continue
            chain = [("aggregate", {"2022 Root"}, set(), "REUSE.toml"), (p, {"2022 Sub"}, {"MIT"}, "subprojects/lib/REUSE.toml")]
            mc, ml, oc, ol = ref.expected((path, path + ".license"), own, None, chain)
            got_c, got_l = set(items[0]), set(items[1])
            r.validated += 1
            if not (mc <= got_c <= (mc | oc) and ml <= got_l <= (ml | ol)):
                r.violation(f"subproject-toml|{p}|sm={case['submodules']}", f"options {extra}, {path} under subprojects/lib/REUSE.toml ({p}): lint attributes {sorted(got_c)} {sorted(got_l)}, expected {sorted(mc)} {sorted(ml)}")
    r.outcome = f"subproject-meson={case['meson']}"
    r.tags.append("subproject")
    return r


def evaluate_ignored_toml(case) -> R:
    """A REUSE.toml that is itself VCS-ignored is not a source."""
    from .. import gitrepo

    r = R()
    root = fresh_dir("c04")
    p = case["ignored_toml"]
    rec = {"d/REUSE.toml": f'version = 1\n\n[[annotations]]\npath = "**"\nprecedence = "{p}"\nSPDX-FileCopyrightText = "2022 Ignored"\nSPDX-License-Identifier = "MIT"\n',
           "d/code.py": "# SPDX-License-Identifier: 0BSD\nx = 1\n", ".gitignore": "REUSE.toml\n", "main.py": "m = 1\n"}
    materialise(root, rec)
    gitrepo.git(root, "init", "-q")
    gitrepo.git(root, "add", "d/code.py", ".gitignore", "main.py")
    out, data = lint_json(root)
    if data is None:
        raise HarnessError(f"lint failed: {out.brief()}")
    items = file_items(data, "d/code.py")
    want = ([], [("0BSD", "d/code.py", "file-header")])
    r.validated = 1
    if items is None or (list(items[0]), list(items[1])) != want:
        r.violation(f"ignored-toml-used|{p}", f"d/REUSE.toml is ignored by Git ({p}): lint attributes {items} to d/code.py, expected {want}")
    r.outcome = "ignored-toml"
    r.tags.append("subproject")
    return r


def evaluate(case) -> R:
    if "subproject" in case:
        return evaluate_subproject(case)
    if "ignored_toml" in case:
        return evaluate_ignored_toml(case)
    if "dep5" in case:
        return evaluate_dep5(case)
    chain = case["chain"]
    SAME["on"] = bool(case.get("same"))
    DIRS = dirs_of(case)
    FDIR = DIRS[2]
    r = R()
    root = fresh_dir("c04")
    recipe = {}
    model_chain = []
    for level, tables in enumerate(chain):
        if tables is None:
            model_chain.append(None)
            continue
        tables = [tuple(t) for t in tables]
        lit = None
        if case.get("literal_decoy"):
            rel = FDIR[len(DIRS[level]):]
            lit = [rel + fname(o, s_) for o in OWN for s_ in SIB]
        recipe[DIRS[level] + "REUSE.toml"] = toml_text(level, tables, lit)
        p, i = tables[-1]
        c, l = table_info(level, i, False)
        model_chain.append((p, c, l, DIRS[level] + "REUSE.toml"))
    for o in OWN:
        for s in SIB:
            recipe[FDIR + fname(o, s)] = own_text(o)
            if s != "absent":
                recipe[FDIR + fname(o, s) + ".license"] = sib_text(s)
    materialise(root, recipe)
    out, data = lint_json(root)
    if data is None:
        raise HarnessError(f"lint failed on chain {chain}: {out.brief()}")
    r.validated = 0
    r.evals = 1
    r.transitions = 24
    r.state_keys = []
    sh = shape(chain)
    for o in OWN:
        for s in SIB:
            path = FDIR + fname(o, s)
            items = file_items(data, path)
            if items is None:
                raise HarnessError(f"{path} missing from lint output")
            got_c, got_l = set(items[0]), set(items[1])
            if len(items[0]) != len(got_c) or len(items[1]) != len(got_l):
                r.violation(f"duplicate-item|O={o},L={s}|{sh}", f"{path}: duplicated items {items}")
            mc, ml, oc, ol = ref.expected((path, path + ".license"), own_info(o), sib_info(s), model_chain)
            r.validated += 1
            r.state_keys.append([o, s, chain, case.get("dirs", 0), bool(case.get("literal_decoy")), bool(case.get("same"))])
            ok = mc <= got_c <= (mc | oc) and ml <= got_l <= (ml | ol)
            if not ok:
                r.violation(
                    coarse_sig(o, s, chain, mc, ml, oc, ol, got_c, got_l),
                    f"file {path} (own={o}, sibling={s}) under REUSE.toml chain {sh}: lint attributes copyrights {sorted(got_c)} "
                    f"licences {sorted(got_l)}; specification gives copyrights {sorted(mc)} licences {sorted(ml)}"
                    + (f" (optionally also {sorted(oc | ol)})" if oc or ol else ""))
    r.outcome = "ok" if not r.viol else "viol"
    n_eff = sum(1 for x in chain if x is not None)
    r.nontrivial = n_eff >= 1
    if n_eff >= 2:
        r.tags.append("nested")
    if any(x is not None and x[-1][0] == "override" for x in chain):
        r.tags.append("override")
    r.outcome = f"levels={n_eff}" + (",viol" if r.viol else "")
    return r


DEP5_HEAD = "Format: https://www.debian.org/doc/packaging-manuals/copyright-format/1.0/\nUpstream-Name: x\n\n"


def evaluate_dep5(case) -> R:
    from ..cli import run_cli

    FDIR = "d1/d2/"
    r = R()
    n = case["dep5"]
    root = fresh_dir("c04")
    dep5 = DEP5_HEAD
    paras = []
    if n >= 1:
        dep5 += "Files: d1/*\nCopyright: 2022 P1\nLicense: MIT\n\n"
        paras.append(({"2022 P1"}, {"MIT"}))
    if n >= 2:
        dep5 += "Files: d1/d2/*\nCopyright: 2023 P2\n 2024 P2b\nLicense: Zlib\n\n"
        paras.append(({"2023 P2", "2024 P2b"}, {"Zlib"}))
    recipe = {".reuse/dep5": dep5}
    if case.get("conflict"):
        recipe["REUSE.toml"] = "version = 1\n"
    for o in OWN:
        for s in SIB:
            recipe[FDIR + fname(o, s)] = own_text(o)
            if s != "absent":
                recipe[FDIR + fname(o, s) + ".license"] = sib_text(s)
    materialise(root, recipe)
    if case.get("conflict"):
        out = run_cli(["--root", str(root), "--no-multiprocessing", "lint", "--json"])
        if out.exit_code != 2 or out.exc:
            r.violation("dep5+REUSE.toml-not-a-usage-error", f"dep5 together with REUSE.toml: {out.brief()}")
        r.outcome = "conflict"
        return r
    out, data = lint_json(root)
    if data is None:
        raise HarnessError(f"lint failed on dep5 tree: {out.brief()}")
    r.validated = 0
    r.state_keys = []
    for o in OWN:
        for s in SIB:
            path = FDIR + fname(o, s)
            items = file_items(data, path)
            got_c, got_l = set(items[0]), set(items[1])
            chain = []
            if paras:
                c, l = paras[-1]  # last matching paragraph wins
                chain = [("aggregate", c, l, ".reuse/dep5")]
            mc, ml, _oc, _ol = ref.expected((path, path + ".license"), own_info(o), sib_info(s), chain)
            mc = {(v, src, "dep5" if t == "reuse-toml" else t) for v, src, t in mc}
            ml = {(v, src, "dep5" if t == "reuse-toml" else t) for v, src, t in ml}
            r.validated += 1
            r.state_keys.append([o, s, "dep5", n])
            if (got_c, got_l) != (mc, ml):
                r.violation(f"dep5:{n}|O={o},L={s}",
                            f"file {path} with {n} dep5 paragraph(s): lint gives {sorted(got_c)} {sorted(got_l)}, expected {sorted(mc)} {sorted(ml)}")
    r.outcome = f"dep5={n}"
    r.tags.append("dep5")
    return r


def vacuity(st):
    for t in ("nested", "override", "dep5", "subproject"):
        if not st.tags.get(t):
            return f"no case tagged {t}"
    return None


def run(tier, seed):
    t0 = time.time()
    st = explore(MODULE, tier, seed)
    return finish(
        ID, "model_checking", MODULE, tier, seed, st, t0,
        rule=("complete product of REUSE.toml chains (per level: absent | one matching table of 3 precedences x 4 information kinds | "
              "the same behind a decoy table) x 24 file states (6 own contents x 4 sibling states); one `reuse lint --json` per chain, "
              "every file's (value, source, source_type) items compared with refmodel.precedence; states = distinct (file state, chain) cells; "
              "non-trivial = chain has at least one REUSE.toml"),
        bounds=bounds(tier, seed),
        assumptions=["whether an outer `closest` table still contributes below an inner override is unspecified: those items are optional",
                     "binary detection is exercised with a PNG-signature payload that binaryornot classifies as binary"],
        vacuity=vacuity,
    )
