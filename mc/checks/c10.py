"""C10 — re-running annotate with the same arguments changes nothing.

E1 + short E2: (i) every recognised file type x line mode x 5 bodies,
(ii) every --style x line mode x prefix x year option x template x target,
(iii) every ordered pair (A, B) of an 8-command menu: B.B.A == B.A, and four
repetitions of one command.  Oracle: byte equality of the file and of its
.license sibling after the first and the second identical invocation.
"""
from __future__ import annotations

import itertools
import time

from .. import annot
from ..core import HarnessError, R, explore, finish, fresh_dir
from ..fstree import materialise, read_tree
from ..lintutil import PNG_HEX

ID = "C10"
MODULE = "mc.checks.c10"
BODIES = ["empty", "code", "comment-top", "shebang", "blank-led"]
PREFIXES = ["spdx", "spdx-c", "spdx-string-c", "spdx-string", "spdx-string-symbol", "spdx-symbol", "string", "string-c", "string-symbol", "symbol"]
YEAROPTS = {"year": ["--year", "2020"], "two-years": ["--year", "2021", "--year", "2019"], "exclude": ["--exclude-year"]}
MENU = {
    "holderA": ["--copyright", "Alice A", "--year", "2020"],
    "holderB-symbol": ["--copyright", "Bob B", "--copyright-prefix", "string-symbol", "--exclude-year"],
    "licX": ["--license", "MIT"],
    "licY": ["--license", "Apache-2.0 OR MIT"],
    "contrib": ["--contributor", "Kim K"],
    "all": ["--copyright", "Cyd C", "--license", "0BSD", "--contributor", "Lee L", "--year", "2018"],
    "multi": ["--copyright", "Dee D", "--license", "ISC", "--exclude-year", "--multi-line"],
    "merge": ["--copyright", "Alice A", "--year", "2022", "--merge-copyrights"],
}
HIST_FILES = {"f.py": "x = 1\n", "g.c": "int x;\n", "h.html": "<p>x</p>\n", "j.jl": "x = 1\n"}


def bounds(tier, seed):
    return {"file_types": len(annot.file_types()), "line_modes": ["default", "--single-line", "--multi-line"], "bodies": BODIES,
            "styles": len(annot.styles()), "prefixes": PREFIXES if tier == "thorough" else "3 rotated by seed + default",
            "year_options": list(YEAROPTS), "templates": ["default", "full", "hash.commented", "fixed-licence (default mode)", "extra-notice (default mode)", "ignore-block (default mode)"], "targets": ["in-file", "--force-dot-license", "--style on an uncommentable type", "--style on a binary file"],
            "history_menu": list(MENU), "history_files": list(HIST_FILES), "repetitions": 4}


def cases(tier, seed):
    for name, _cls in annot.file_types():
        for mode in ("default", "single", "multi"):
            for body in BODIES:
                yield {"k": "type", "name": name, "mode": mode, "body": body}
    prefixes = PREFIXES if tier == "thorough" else [None] + [PREFIXES[(seed + i * 3) % 10] for i in range(3)]
    for st in annot.styles():
        for mode in ("default", "single", "multi"):
            for p in prefixes:
                for y in YEAROPTS:
                    for tpl in (None, "full", "hash.commented"):
                        for target in ("in-file", "dot-license"):
                            if tpl == "hash.commented" and st != "python":
                                continue
                            yield {"k": "style", "style": st, "mode": mode, "prefix": p, "year": y, "tpl": tpl, "target": target}
    for st in annot.styles():
        for y in YEAROPTS:
            for target in ("uncommentable+style", "binary+style"):
                yield {"k": "style", "style": st, "mode": "default", "prefix": None, "year": y, "tpl": None, "target": target}
    for st in annot.styles():
        for tpl in ("fixed-licence", "extra-notice", "ignore-block"):
            for y in YEAROPTS:
                for target in ("in-file", "dot-license"):
                    yield {"k": "style", "style": st, "mode": "default", "prefix": None, "year": y, "tpl": tpl, "target": target}
    for st in annot.styles():
        for p in [None] + PREFIXES:
            for only in ("copyright", "licence", "contributor", "copyright+contributor"):
                for body in ("code", "empty"):
                    yield {"k": "only", "style": st, "prefix": p, "only": only, "body": body}
    for st in annot.styles():
        for mode in ("single", "multi"):
            for tail in hostile_tails(annot.styles()[st], mode):
                yield {"k": "tail", "style": st, "mode": mode, "tail": tail}
    for st in annot.styles():
        for field in ("copyright", "contributor", "year"):
            for ch in LINEBREAKS:
                for pos in ("middle", "end"):
                    for target in ("in-file", "dot-license"):
                        yield {"k": "linebreak", "style": st, "field": field, "ch": ch, "pos": pos, "target": target}
    for a, b in itertools.product(MENU, repeat=2):
        for f in HIST_FILES:
            yield {"k": "pair", "a": a, "b": b, "file": f}
    for a in MENU:
        for f in HIST_FILES:
            yield {"k": "repeat", "a": a, "file": f}
    # a template that is one ready-made block comment, values with and without the comment's terminator
    for field in ("copyright", "contributor"):
        for value in ("Kim Corp", "Kim */ Corp", "Kim Corp */", "*/ Kim Corp"):
            for fname in ("f.c", "g.css", "h.java"):
                yield {"k": "ctpl", "field": field, "value": value, "file": fname}
    # a file annotated in n earlier years with one prefix, then --merge-copyrights with another prefix, repeated
    for p1 in PREFIXES:
        for p2 in PREFIXES:
            for n in (1, 2, 3):
                for mergeyear in ("new", "same"):
                    yield {"k": "merge", "p1": p1, "p2": p2, "n": n, "mergeyear": mergeyear}


def line_marker(cls, mode):
    """What precedes a tag on its line in this style/mode (stripped)."""
    if mode == "single":
        return cls.SINGLE_LINE.strip() if cls.can_handle_single() else None
    if not cls.can_handle_multi():
        return None
    return cls.MULTI_LINE.middle.strip()


def hostile_tails(cls, mode):
    """Value tails made of the characters of the line's own comment marker:
    each character, the marker, its mirror image, the marker with its last
    character doubled.  (A value that ends in the exact mirror image of its
    line prefix is indistinguishable from an ASCII-art frame.)"""
    m = line_marker(cls, mode)
    if not m:
        return []
    out = []
    for t in [*dict.fromkeys(m), m, m[::-1], m + m[-1]]:
        if t not in out:
            out.append(t)
    return out


def _mode_args(mode):
    return {"default": [], "single": ["--single-line"], "multi": ["--multi-line"]}[mode]


def _body(cls, kind):
    code = "some code line\nsecond line\n"
    if kind == "empty":
        return ""
    if kind == "code":
        return code
    if kind == "blank-led":
        return "\n\n" + code
    if kind == "comment-top":
        try:
            return cls.create_comment("just a remark") + "\n" + code
        except Exception:
            return None
    if kind == "shebang":
        if not cls.SHEBANGS:
            return None
        return cls.SHEBANGS[0] + " first-line declaration\n" + code
    raise AssertionError(kind)


def twice(r: R, root, argv, paths, label, sig, n=2):
    """Run the same annotate n times; compare the tree after run 1 with the
    tree after each later run."""
    first = annot.annotate(root, argv, paths)
    if first.exc:
        r.violation(f"crash|{sig}", f"{label}: annotate {argv} raised {first.exc_repr}")
        return None
    if first.exit_code != 0:
        return first
    snap1 = read_tree(root)
    for i in range(2, n + 1):
        again = annot.annotate(root, argv, paths)
        r.evals += 1
        if again.exc or again.exit_code != 0:
            r.violation(f"second-run-fails|{sig}", f"{label}: run {i} of annotate {argv}: {again.brief()}")
            return first
        snap = read_tree(root)
        if snap != snap1:
            changed = sorted(k for k in set(snap) | set(snap1) if snap.get(k) != snap1.get(k))
            k = changed[0]
            r.violation(f"not-idempotent|{sig}",
                        f"{label}: annotate {argv} run {i} changed {changed}: after run 1 {snap1.get(k)!r}, after run {i} {snap.get(k)!r}")
            return first
    return first


def ev_type(c) -> R:
    from reuse.comment import get_comment_style

    r = R()
    name = c["name"]
    cls = get_comment_style(name)
    if cls is None:
        # a table entry that get_comment_style() can never return (e.g. the
        # two-dot extension '.nim.cfg'): observed, not judged
        r.outcome = "table-entry-unreachable"
        r.nontrivial = False
        r.notes.append(f"unreachable table entry {name}")
        return r
    uncommentable = not (cls.can_handle_single() or cls.can_handle_multi())
    body = "binary" if False else (_body(cls, c["body"]) if not uncommentable else {"empty": "", "code": "data\n"}.get(c["body"]))
    if body is None:
        r.nontrivial = False
        r.outcome = "n/a"
        return r
    if c["mode"] == "single" and not uncommentable and not cls.can_handle_single():
        r.outcome = "mode-unsupported"
        r.nontrivial = False
        return r
    if c["mode"] == "multi" and not uncommentable and not cls.can_handle_multi():
        r.outcome = "mode-unsupported"
        r.nontrivial = False
        return r
    if uncommentable and c["mode"] != "default":
        r.outcome = "n/a"
        r.nontrivial = False
        return r
    root = fresh_dir("c10")
    materialise(root, {name: body if body != "" else {"empty": True}})
    argv = ["--copyright", "Jane Doe", "--license", "MIT", "--contributor", "Kim", "--year", "2020", *_mode_args(c["mode"])]
    res = twice(r, root, argv, [root / name], f"file {name!r} ({cls.__name__}), body {c['body']}", f"{cls.__name__}|{c['mode']}|{c['body']}")
    r.outcome = "n/a" if res is None else f"exit{res.exit_code}"
    if res is not None and res.exit_code != 0:
        r.nontrivial = False
        r.notes.append(f"first run exit {res.exit_code}: {cls.__name__} {c['mode']}")
    r.tags.append("type")
    return r


def ev_style(c) -> R:
    r = R()
    cls = annot.styles()[c["style"]]
    if (c["mode"] == "single" and not cls.can_handle_single()) or (c["mode"] == "multi" and not cls.can_handle_multi()):
        r.outcome = "mode-unsupported"
        r.nontrivial = False
        return r
    root = fresh_dir("c10")
    recipe = {"file.unknownext": "content line\nsecond\n"}
    fname = "file.unknownext"
    if c["target"] == "uncommentable+style":
        # --style given for a file type that cannot carry comments: the header goes to FILE.license, in that style
        fname = "data.json"
        recipe = {fname: "{\"a\": 1}\n"}
    elif c["target"] == "binary+style":
        from ..lintutil import PNG_HEX

        fname = "img.png"
        recipe = {fname: {"hex": PNG_HEX}}
    if c["tpl"]:
        recipe.update(annot.template_recipe([c["tpl"]]))
    materialise(root, recipe)
    argv = ["--copyright", "Jane Doe <jane@example.com>", "--license", "MIT", "--contributor", "Kim", *YEAROPTS[c["year"]], *_mode_args(c["mode"])]
    if c["target"] == "dot-license":
        argv.append("--force-dot-license")
    else:
        argv += ["--style", c["style"]]
    if c["target"] == "dot-license" and c["mode"] != "default":
        argv += ["--style", c["style"]]
    if c["prefix"]:
        argv += ["--copyright-prefix", c["prefix"]]
    if c["tpl"]:
        argv += ["--template", c["tpl"]]
    sig = f"{c['style']}|{c['mode']}|{c['target']}|tpl={c['tpl']}"
    res = twice(r, root, argv, [root / fname], f"--style {c['style']} {c['mode']} {c['target']} prefix={c['prefix']} year={c['year']} tpl={c['tpl']}", sig, n=3)
    r.outcome = "n/a" if res is None else f"exit{res.exit_code}"
    if res is not None and res.exit_code != 0:
        r.nontrivial = False
        r.notes.append(f"first run exit {res.exit_code}: style {c['style']} {c['mode']} {c['target']}")
    r.tags.append("style")
    return r


def ev_tail(c) -> R:
    r = R()
    cls = annot.styles()[c["style"]]
    root = fresh_dir("c10")
    materialise(root, {"file.unknownext": "content line\n"})
    m = line_marker(cls, c["mode"])
    value = "Acme " + c["tail"]
    argv = ["--copyright", "Jane Doe", "--license", "MIT", "--contributor", value, "--year", "2020", "--style", c["style"], *_mode_args(c["mode"])]
    mirrored = value.endswith(m[::-1])
    sig = ("value-ends-with-mirrored-line-prefix" if mirrored else f"tail|{c['style']}|{c['mode']}|{c['tail']}")
    res = twice(r, root, argv, [root / "file.unknownext"], f"--style {c['style']} {c['mode']}, contributor {value!r}", sig)
    if r.viol and mirrored:
        for v in r.viol:
            v["signature"] = "value-ends-with-mirrored-line-prefix"
    r.outcome = "n/a" if res is None else f"tail-exit{res.exit_code}"
    r.tags.append("tail")
    return r


# every character str.splitlines() takes for a line boundary (code points; the value is built at evaluation time)
LINEBREAKS = [0x0A, 0x0D, 0x0B, 0x0C, 0x1C, 0x1D, 0x1E, 0x85, 0x2028, 0x2029]


def ev_linebreak(c) -> R:
    """A value that holds a line-boundary character: a header line is one line, so either the tool refuses the value and leaves the file alone, or
    what it wrote is found again by the next identical run (and the run after)."""
    r = R()
    root = fresh_dir("c10")
    fname = "file.unknownext"
    materialise(root, {fname: "content line\nsecond\n"})
    before = read_tree(root)
    ch = chr(c["ch"])
    value = "Joe" + ch + "Bloggs" if c["pos"] == "middle" else "Joe Bloggs" + ch
    if c["field"] == "year":
        value = "2019" + ch + "2020" if c["pos"] == "middle" else "2020" + ch
        argv = ["--license", "MIT", "--year", value, "--style", c["style"], "--copyright", "Jane Doe"]
    else:
        argv = ["--license", "MIT", "--year", "2020", "--style", c["style"]]
        argv += ["--copyright", value] if c["field"] == "copyright" else ["--copyright", "Jane Doe", "--contributor", value]
    if c["target"] == "dot-license":
        argv.append("--force-dot-license")
    sig = f"linebreak|{c['field']}|U+{c['ch']:04X}|{c['pos']}"
    res = twice(r, root, argv, [root / fname], f"--style {c['style']} {c['target']} {c['field']} {value!r}", sig, n=3)
    if res is not None and res.exit_code != 0 and read_tree(root) != before:
        r.violation(f"refused-but-written|{sig}", f"annotate {argv} exits {res.exit_code} but changed the tree")
    r.outcome = "n/a" if res is None else f"linebreak-exit{res.exit_code}"
    r.tags.append("linebreak")
    return r


def ev_only(c) -> R:
    """Only one kind of information requested (e.g. a bare '(c)'-style notice and nothing else)."""
    r = R()
    root = fresh_dir("c10")
    materialise(root, {"file.unknownext": "plain body line\nsecond\n" if c["body"] == "code" else {"empty": True}})
    argv = ["--style", c["style"], "--year", "2020"]
    if "copyright" in c["only"]:
        argv += ["--copyright", "Jane Doe"]
    if c["only"] == "licence":
        argv += ["--license", "MIT"]
    if "contributor" in c["only"]:
        argv += ["--contributor", "Kim"]
    if c["prefix"]:
        argv += ["--copyright-prefix", c["prefix"]]
    res = twice(r, root, argv, [root / "file.unknownext"], f"--style {c['style']} only {c['only']} prefix {c['prefix']} body {c['body']}",
                f"only|{c['only']}|prefix={c['prefix']}", n=3)
    r.outcome = "n/a" if res is None else f"only-exit{res.exit_code}"
    r.tags.append("only")
    return r


def ev_pair(c) -> R:
    r = R()
    root = fresh_dir("c10")
    materialise(root, {c["file"]: HIST_FILES[c["file"]]})
    p = root / c["file"]
    a = annot.annotate(root, MENU[c["a"]], [p])
    if a.exc or a.exit_code != 0:
        r.nontrivial = False
        r.outcome = f"pair-n/a(exit {a.exit_code})"
        return r
    res = twice(r, root, MENU[c["b"]], [p], f"{c['file']}: after {c['a']}, command {c['b']}", f"pair|{c['file'].split('.')[-1]}|{c['a']}>{c['b']}")
    r.outcome = "pair"
    if res is not None and res.exit_code != 0:
        r.nontrivial = False
        r.outcome = f"pair-n/a(exit {res.exit_code})"
    r.transitions = 3
    r.tags.append("pair")
    return r


def ev_repeat(c) -> R:
    r = R()
    root = fresh_dir("c10")
    materialise(root, {c["file"]: HIST_FILES[c["file"]]})
    res = twice(r, root, MENU[c["a"]], [root / c["file"]], f"{c['file']}: command {c['a']} x4", f"repeat|{c['file'].split('.')[-1]}|{c['a']}", n=4)
    r.outcome = "repeat"
    if res is not None and res.exit_code != 0:
        r.nontrivial = False
        r.outcome = f"repeat-n/a(exit {res.exit_code})"
    r.transitions = 4
    r.tags.append("repeat")
    return r


def ev_ctpl(c) -> R:
    """A pre-commented template: the tool does not build the comment itself, so nothing stops a value from ending the comment early.  Either the
    value is refused, or the header is found again by the next identical run."""
    r = R()
    root = fresh_dir("c10")
    materialise(root, {c["file"]: "body line;\n", **annot.template_recipe(["cblock.commented"])})
    p = root / c["file"]
    argv = ["--license", "MIT", "--year", "2020", "--template", "cblock"]
    argv += ["--copyright", c["value"]] if c["field"] == "copyright" else ["--copyright", "Jane Doe", "--contributor", c["value"]]
    sig = "commented-template|value-holds-terminator" if "*/" in c["value"] else "commented-template|plain-value"
    res = twice(r, root, argv, [p], f"{c['file']} with a template that is one block comment, {c['field']} {c['value']!r}", sig, n=3)
    r.outcome = "n/a" if res is None else f"ctpl-exit{res.exit_code}"
    r.tags.append("ctpl")
    return r


def ev_merge(c) -> R:
    r = R()
    root = fresh_dir("c10")
    materialise(root, {"a.py": "x = 1\n"})
    p = root / "a.py"
    for i in range(c["n"]):
        pre = annot.annotate(root, ["--copyright", "Jane Doe", "--year", str(2015 + i), "--copyright-prefix", c["p1"]], [p])
        if pre.exc or pre.exit_code != 0:
            raise HarnessError(f"set-up annotate failed: {pre.brief()}")
    year = "2021" if c["mergeyear"] == "new" else "2015"
    argv = ["--copyright", "Jane Doe", "--year", year, "--copyright-prefix", c["p2"], "--merge-copyrights"]
    res = twice(r, root, argv, [p], f"a.py annotated for {c['n']} year(s) with prefix {c['p1']}, then", f"merge|n={c['n']}|{'same-prefix' if c['p1'] == c['p2'] else 'other-prefix'}|{c['mergeyear']}", n=3)
    r.outcome = "n/a" if res is None else f"merge-exit{res.exit_code}"
    r.tags.append("merge")
    return r


_EV = {"ctpl": ev_ctpl, "merge": ev_merge, "type": ev_type, "style": ev_style, "pair": ev_pair, "repeat": ev_repeat, "tail": ev_tail, "only": ev_only, "linebreak": ev_linebreak}


def evaluate(c) -> R:
    return _EV[c["k"]](c)


def vacuity(st):
    for t in _EV:
        if st.tags.get(t, 0) < 5:
            return f"slice {t} did not run"
    if st.outcomes.get("exit0", 0) < 0.5 * (st.tags["type"] + st.tags["style"]):
        return f"fewer than half of the first runs succeeded: {dict(st.outcomes)}"
    return None


def run(tier, seed):
    t0 = time.time()
    st = explore(MODULE, tier, seed)
    return finish(
        ID, "model_checking", MODULE, tier, seed, st, t0,
        rule=("complete products: every entry of the extension/file-name tables x line mode x 5 bodies; every --style x line mode x prefix x year option x "
              "template x target; every ordered pair of an 8-command menu on 4 file types (B.B.A == B.A) and 4-fold repetition; oracle = byte "
              "equality of the whole scratch tree after run 1 and after each further identical run; non-trivial = the cell is supported by the style"),
        bounds=bounds(tier, seed),
        assumptions=["bodies are free of other REUSE tags", "--year is fixed so that the clock does not enter"],
        vacuity=vacuity,
    )
