"""C11 — a failed annotation leaves the tree as it was and shows in the exit status.

E3 fault enumeration: every invocation over 3 files drawn from a menu of
healthy and failing file kinds (>= 1 failing), in every argument order, for
the in-file and --force-dot-license targets; invocation-wide failures
(information-dropping templates); and the usage-error cells, each with the
offending file in every argument position.  Oracle: whole-tree snapshot.
"""
from __future__ import annotations

import itertools
import time

from .. import annot
from ..core import HarnessError, R, explore, finish, fresh_dir
from ..fstree import materialise, read_tree
from ..lintutil import PNG_HEX

ID = "C11"
MODULE = "mc.checks.c11"
GOODHDR = "/*\n * SPDX-FileCopyrightText: 2001 Old\n * SPDX-License-Identifier: ISC\n */\n\nint y;\n"

KINDS = {
    # kind: (file name, recipe entries, terminator of the file's (multi-line only) comment style or None)
    "H1": ("h1.py", {"h1.py": "code()\n"}, None),
    "H3": ("h3.py", {"h3.py": "# SPDX-FileCopyrightText: 2001 Old\n# SPDX-License-Identifier: ISC\n\ncode()\n"}, None),
    "P2": ("p2.py", {"p2.py": {"latin1": "a = 1\r\nb = 2\nc = 3\r\n"}}, None),
    "BIN": ("img.png", {"img.png": {"hex": PNG_HEX}}, None),
    "C1": ("c1.c", {"c1.c": "int x;\n"}, "*/"),
    "C2": ("c2.c", {"c2.c": GOODHDR}, "*/"),
    "C3": ("c3.c", {"c3.c": {"latin1": "int a;\r\nint b;\nint c;\r\n"}}, "*/"),
    "X1": ("x1.html", {"x1.html": "<p>x</p>\n"}, "-->"),
    "M1": ("m1.ml", {"m1.ml": "let x = 1\n"}, "*)"),
}
TOKENS = ["*/", "-->", "*)"]
HOLDER_SETS = [t for n in (1, 2, 3) for t in itertools.combinations(TOKENS, n)]


def holder_for(toks):
    return "Acme " + " ".join(toks) + " Corp"


def fails(kind, toks, target):
    return target == "in-file" and KINDS[kind][2] in toks


DROPPING = ("nolicence", "nocopyright", "nothing", "nolicence.commented", "nothing.commented")
BROKEN = ("broken-syntax", "broken-unclosed", "broken-filter", "broken-undefined", "broken-div0", "broken-include", "broken-type", "broken-utf8", "broken-static-expression")


def bounds(tier, seed):
    return {"kinds": list(KINDS), "files_per_invocation": 3, "orders": "all", "targets": ["in-file", "force-dot-license"], "holder_token_sets": [list(t) for t in HOLDER_SETS],
            "dropping_templates": list(DROPPING), "broken_templates": list(BROKEN), "usage_cells": len(list(usage_cells()))}


def usage_cells():
    base = ["--copyright", "Jane Doe", "--license", "MIT", "--year", "2020"]
    for pos in range(3):
        yield {"name": "single-line-unsupported", "argv": base + ["--single-line"], "bad": "h2.html", "pos": pos}
        yield {"name": "multi-line-unsupported", "argv": base + ["--multi-line"], "bad": "h1.py", "pos": pos}
        yield {"name": "unrecognised-extension", "argv": base, "bad": "data.xyz", "pos": pos}
        yield {"name": "unrecognised-extensionless", "argv": base, "bad": "NOTES", "pos": pos}
    for name, extra in {
        "year+exclude-year": ["--exclude-year"], "single+multi": ["--single-line", "--multi-line"],
        "force+fallback": ["--force-dot-license", "--fallback-dot-license"], "force+skip-unrecognised": ["--force-dot-license", "--skip-unrecognised"],
        "fallback+skip-unrecognised": ["--fallback-dot-license", "--skip-unrecognised"], "style+skip-unrecognised": ["--style", "python", "--skip-unrecognised"],
        "unknown-template": ["--template", "does-not-exist"], "unknown-style": ["--style", "nosuchstyle"], "bad-prefix": ["--copyright-prefix", "nosuch"],
        "bad-expression": ["--license", "MIT AND AND"], "empty-expression": ["--license", ""], "blank-expression": ["--license", "  "], "empty-contributor": ["--contributor", ""],
        "blank-contributor": ["--contributor", " \t"], "empty-second-copyright": ["--copyright", ""],
    }.items():
        yield {"name": name, "argv": base + extra, "bad": None, "pos": 0}
    yield {"name": "nothing-requested", "argv": ["--year", "2020"], "bad": None, "pos": 0}
    yield {"name": "missing-path", "argv": base, "bad": "no-such-file.py", "pos": 1}


def cases(tier, seed):
    kinds = list(KINDS)
    i = 0
    if tier == "thorough":
        for sel in itertools.combinations(kinds, 4):
            for toks in HOLDER_SETS:
                if any(fails(k, toks, "in-file") for k in sel):
                    for variant in range(4):
                        yield {"k": "mix", "sel": list(sel), "target": "in-file", "toks": list(toks), "variant": variant}
    for sel in itertools.permutations(kinds, 3):
        for toks in HOLDER_SETS:
            if any(fails(k, toks, "in-file") for k in sel):
                i += 1
                yield {"k": "mix", "sel": list(sel), "target": "in-file", "toks": list(toks), "variant": i % 4}
    for sel in itertools.combinations(kinds, 3):
        yield {"k": "mix", "sel": list(sel), "target": "force-dot-license", "toks": list(TOKENS)}
    # option values that cannot be written as UTF-8 (what the shell hands over for Latin-1 bytes arrives as lone surrogates)
    for where in ("copyright", "contributor"):
        for sel in itertools.permutations(["H1", "H3", "C3", "BIN", "X1"], 2):
            for target in ("in-file", "force-dot-license"):
                yield {"k": "unencodable", "where": where, "sel": list(sel), "target": target}
    for tpl in DROPPING + BROKEN:
        for target in ("in-file", "force-dot-license", "fallback-dot-license"):
            for sel in itertools.permutations(["H1", "X1", "H3", "BIN", "C3"], 2):
                yield {"k": "tpl", "tpl": tpl, "target": target, "sel": list(sel)}
            for sel in (["H1", "C3"], ["X1", "H3"], ["BIN", "H1"]):
                for extra in (["--no-replace"], ["--merge-copyrights"], ["--skip-existing"], ["--no-replace", "--multi-line"]):
                    yield {"k": "tpl", "tpl": tpl, "target": target, "sel": sel, "extra": extra}
    from ..refmodel.styles import CAPABILITIES

    for st, cap in CAPABILITIES.items():
        for mode in ("single", "multi"):
            if not cap[mode]:
                for how in ("style-option", "file-type"):
                    if how == "file-type" and not cap["ext"]:
                        continue
                    yield {"k": "capability", "style": st, "mode": mode, "how": how}
    for cell in usage_cells():
        for variant in range(len(NAME_VARIANTS) if cell["bad"] in ("h2.html", "h1.py", "NOTES") else 1):
            yield {"k": "usage", "variant": variant, **cell}


VPREF = ["", "q_", "z9", "m-"]


def vname(name, v):
    d, _, b = name.rpartition("/")
    return (d + "/" if d else "") + VPREF[v % len(VPREF)] + b


def ev_mix(c) -> R:
    """Arguments are relative to cwd = root and file names carry a variant
    prefix: the order in which the tool walks its set of paths is then a
    deterministic function of the names, and different variants give
    different orders."""
    from ..cli import run_cli

    r = R()
    v = c.get("variant", 0)
    root = fresh_dir("c11")
    recipe = {"other/untouched.py": "# SPDX-FileCopyrightText: 2000 Nobody\nuntouched()\n"}
    for k in c["sel"]:
        for n, spec in KINDS[k][1].items():
            recipe[vname(n, v)] = spec
    materialise(root, recipe)
    holder = holder_for(c["toks"])
    failing = {k for k in c["sel"] if fails(k, c["toks"], c["target"])}
    argv = ["--copyright", holder, "--license", "MIT", "--year", "2020"]
    if c["target"] == "force-dot-license":
        argv.append("--force-dot-license")
    before = read_tree(root)
    names = [vname(KINDS[k][0], v) for k in c["sel"]]
    res = run_cli(["annotate", *argv, *names], cwd=str(root))
    after = read_tree(root)
    order = []
    for l in res.stdout.splitlines():
        if l.startswith(("Successfully", "Error")):
            hit = [n for n in names if n in l]
            if hit:
                order.append(max(hit, key=len))
    label = f"annotate {argv} {names} (processed: {order})"
    if res.exc:
        r.violation(f"crash|{c['target']}", f"{label}: {res.exc_repr}")
        return r
    if res.exit_code != (1 if failing else 0):
        r.violation(f"exit-status|{c['target']}", f"{label}: failing files {sorted(failing)}, exit status {res.exit_code}; stdout {res.stdout[-300:]!r}")
    for k in c["sel"]:
        name = vname(KINDS[k][0], v)
        mine = {name, name + ".license"}
        if k in failing:
            for p in mine:
                if after.get(p) != before.get(p):
                    what = "created" if p not in before else ("removed" if p not in after else "modified")
                    r.violation(f"failing-file-touched|{c['target']}|{k}|{what}",
                                f"{label}: {name} cannot be annotated but {p} was {what}: before {before.get(p)!r} after {after.get(p)!r}")
        else:
            if name not in after:
                r.violation(f"healthy-file-removed|{c['target']}|{k}", f"{label}: {name} disappeared")
                continue
            info = annot.lint_file_info(root, name)
            want = f"SPDX-FileCopyrightText: 2020 {holder}"
            if info is None or want not in info[0] or "MIT" not in info[1]:
                r.violation(f"healthy-file-not-annotated|{c['target']}|{k}", f"{label}: healthy file {name} reads back {info}")
    sel_names = {vname(KINDS[k][0], v) for k in c["sel"]}
    for p in set(before) | set(after):
        if not any(p in (n, n + ".license") for n in sel_names) and before.get(p) != after.get(p):
            r.violation(f"unrelated-file-touched|{c['target']}", f"{label}: {p} changed")
    r.outcome = f"exit{res.exit_code}|failing={len(failing)}"
    r.tags.append("mix")
    if failing and order:
        first_fail = next((i for i, o in enumerate(order) if any(o == vname(KINDS[k][0], v) for k in failing)), None)
        if first_fail is not None:
            r.tags.append("failing-first" if first_fail == 0 else "failing-later")
    r.nontrivial = bool(failing)
    return r


def ev_tpl(c) -> R:
    r = R()
    root = fresh_dir("c11")
    recipe = dict(annot.template_recipe([c["tpl"]]))
    names = []
    for k in c["sel"]:
        recipe.update(KINDS[k][1])
        names.append(KINDS[k][0])
    if c["target"] == "fallback-dot-license":
        recipe["data.xyz"] = "data\n"
        names.append("data.xyz")
    materialise(root, recipe)
    argv = ["--copyright", "Jane Doe", "--license", "MIT", "--year", "2020", "--template", c["tpl"]]
    if c["target"] != "in-file":
        argv.append("--" + c["target"])
    argv += c.get("extra", [])
    if "--multi-line" in argv:
        names = [n for n in names if n.endswith((".c", ".html"))]
        if not names:
            r.outcome, r.nontrivial = "n/a", False
            r.tags.append("tpl")
            return r
    before = read_tree(root)
    res = annot.annotate(root, argv, [root / n for n in names])
    after = read_tree(root)
    label = f"annotate {argv} {names}"
    if res.exc:
        r.violation(f"crash|tpl={c['tpl']}", f"{label}: {res.exc_repr}")
        if after != before:
            changed = sorted(p for p in set(after) | set(before) if after.get(p) != before.get(p))
            r.violation(f"tpl-tree-changed|tpl={c['tpl']}|{c['target']}", f"{label}: the run failed ({res.exc_repr}) but the tree changed: {changed}")
        return r
    if res.exit_code not in ((1, 2) if c["tpl"] in BROKEN else (1,)):
        r.violation(f"tpl-exit-status|tpl={c['tpl']}|{c['target']}", f"{label}: template drops information / cannot be rendered, exit status {res.exit_code}")
    if after != before:
        changed = sorted(p for p in set(after) | set(before) if after.get(p) != before.get(p))
        r.violation(f"tpl-tree-changed|tpl={c['tpl']}|{c['target']}", f"{label}: every file must fail, but the tree changed: {changed}")
    r.outcome = f"tpl-exit{res.exit_code}"
    r.tags.append("tpl")
    return r


def ev_unencodable(c) -> R:
    from ..cli import run_cli

    r = R()
    root = fresh_dir("c11")
    recipe, names = {}, []
    for k in c["sel"]:
        recipe.update(KINDS[k][1])
        names.append(KINDS[k][0])
    materialise(root, recipe)
    value = "M\udcfcller GmbH"
    argv = ["--license", "MIT", "--year", "2020"] + (["--copyright", value] if c["where"] == "copyright" else ["--copyright", "Jane Doe", "--contributor", value])
    if c["target"] != "in-file":
        argv.append("--" + c["target"])
    before = read_tree(root)
    res = run_cli(["annotate", *argv, *names], cwd=str(root))
    after = read_tree(root)
    label = f"annotate with an option value that is not valid UTF-8 ({c['where']}) on {names} ({c['target']})"
    if res.exc:
        r.violation(f"crash|unencodable|{c['where']}", f"{label}: {res.exc_repr}")
    elif res.exit_code == 0:
        r.violation(f"unencodable-accepted|{c['where']}", f"{label}: exit 0")
    if after != before:
        changed = sorted(p for p in set(after) | set(before) if after.get(p) != before.get(p))
        emptied = [p for p in changed if p in after and after[p] == b"" and before.get(p)]
        r.violation(f"unencodable-tree-changed|{c['where']}|{c['target']}" + ("|file-emptied" if emptied else ""),
                    f"{label}: nothing can be written, but the tree changed: {changed}" + (f"; EMPTIED: {emptied}" if emptied else ""))
    r.outcome = f"unencodable-exit{res.exit_code}"
    r.tags.append("unencodable")
    return r


def ev_capability(c) -> R:
    """A line mode the style does not have (frozen table, refmodel/styles.py) is a usage error for the whole invocation: exit status 2,
    nothing touched - also not the healthy file named next to it."""
    from ..cli import run_cli
    from ..refmodel.styles import CAPABILITIES

    r = R()
    cap = CAPABILITIES[c["style"]]
    root = fresh_dir("c11")
    bad = "data.unknownext" if c["how"] == "style-option" else "file" + cap["ext"]
    recipe = {bad: "content\n", "healthy.py" if c["mode"] == "single" else "healthy.c": "code\n"}
    materialise(root, recipe)
    argv = ["--copyright", "Jane Doe", "--license", "MIT", "--year", "2020", "--" + c["mode"] + "-line"]
    names = sorted(recipe)
    if c["how"] == "style-option":
        argv += ["--style", c["style"]]
        names = [bad]
    before = read_tree(root)
    res = run_cli(["annotate", *argv, *names], cwd=str(root))
    after = read_tree(root)
    label = f"annotate {argv} {names} (style {c['style']} has no {c['mode']}-line comments)"
    if res.exc:
        r.violation(f"crash|capability|{c['style']}", f"{label}: {res.exc_repr}")
    elif res.exit_code != 2:
        r.violation(f"unsupported-line-mode-accepted|{c['style']}|{c['mode']}|{c['how']}", f"{label}: exit status {res.exit_code}; stdout {res.stdout[-200:]!r}")
    if after != before:
        changed = sorted(p for p in set(after) | set(before) if after.get(p) != before.get(p))
        r.violation(f"unsupported-line-mode-touched-tree|{c['style']}|{c['mode']}", f"{label}: tree changed: {changed}")
    r.outcome = f"capability-exit{res.exit_code}"
    r.tags.append("capability")
    return r


NAME_VARIANTS = [("h1", "h3", "h2"), ("a", "b", "z"), ("m", "n", "c"), ("x", "y", "q"), ("p1", "p2", "w"), ("k", "l", "o"), ("aa", "ab", "ac"), ("s", "t", "u")]


def ev_usage(c) -> R:
    """Usage-error cells.  Arguments are given relative to cwd = root, so that
    the order in which the tool iterates its *set* of paths is a function of
    the names only (hash seed fixed); several name variants make both relative
    orders of the offending and the healthy files occur."""
    r = R()
    v = NAME_VARIANTS[c.get("variant", 0)]
    py1, py2, html = v[0] + ".py", v[1] + ".py", v[2] + ".html"
    root = fresh_dir("c11")
    recipe = {py1: "code()\n", py2: "# SPDX-FileCopyrightText: 2001 Old\n# SPDX-License-Identifier: ISC\n\ncode()\n", html: "<p>x</p>\n",
              v[0] + "2.html": "<p>y</p>\n", "data.xyz": "data\n"}
    materialise(root, recipe)
    bad = {"h2.html": html, "h1.py": py1}.get(c["bad"], c["bad"])
    healthy = [py1, py2]
    if c["name"] == "multi-line-unsupported":
        healthy = [html, v[0] + "2.html"]
    if c["name"] == "unrecognised-extensionless":
        # files recognised by their *name*, next to an unrecognised name without extension
        healthy = [["Makefile", "Dockerfile"], ["Dockerfile", "Gemfile"], ["Makefile", "Rakefile"], ["CMakeLists.txt", "Makefile"]][c.get("variant", 0) % 4]
        for h in healthy:
            recipe_extra = root / h
            recipe_extra.write_text("all:\n")
        (root / "NOTES").write_text("notes\n")
        (root / "TODO").write_text("todo\n")
        bad = ["NOTES", "TODO"][c.get("variant", 0) // 4 % 2]
    names = list(healthy)
    if bad:
        names.insert(c["pos"], bad)
    before = read_tree(root)
    from ..cli import run_cli

    res = run_cli(["annotate", *c["argv"], *dict.fromkeys(names)], cwd=str(root))
    after = read_tree(root)
    label = f"annotate {c['argv']} {names}"
    if res.exc:
        r.violation(f"crash|usage|{c['name']}", f"{label}: {res.exc_repr}")
        return r
    if res.exit_code != 2:
        r.violation(f"usage-exit-status|{c['name']}", f"{label}: usage error expected (exit 2), got exit {res.exit_code}: {res.stdout[-200:]!r} {res.stderr[-200:]!r}")
    if after != before:
        changed = sorted(p for p in set(after) | set(before) if after.get(p) != before.get(p))
        r.violation(f"usage-error-after-touching|{c['name']}", f"{label}: usage error but files were touched: {changed}")
    r.outcome = f"usage-exit{res.exit_code}"
    r.tags.append("usage")
    return r


_EV = {"mix": ev_mix, "tpl": ev_tpl, "usage": ev_usage, "capability": ev_capability, "unencodable": ev_unencodable}


def evaluate(c) -> R:
    return _EV[c["k"]](c)


def vacuity(st):
    for t in _EV:
        if st.tags.get(t, 0) < 5:
            return f"slice {t} did not run"
    if st.tags.get("failing-first", 0) < 20 or st.tags.get("failing-later", 0) < 20:
        return f"processing orders not both covered: {dict(st.tags)}"
    return None


def run(tier, seed):
    t0 = time.time()
    st = explore(MODULE, tier, seed)
    return finish(
        ID, "fault_enumeration", MODULE, tier, seed, st, t0,
        rule=("every ordered selection of 3 of 9 file kinds (4 healthy, 5 failing for different anticipated reasons) with >= 1 failing file x "
              "{in-file, --force-dot-license}; information-dropping templates x 3 targets x ordered pairs of healthy files; every usage-error cell with "
              "the offending file in every argument position; oracle = whole-tree content snapshot before/after + exit status + read-back of healthy files; "
              "non-trivial = at least one file of the invocation fails"),
        bounds=bounds(tier, seed),
        assumptions=["failure causes are the anticipated ones of the statement (terminator in holder, unparseable existing header, information-dropping template, unsupported line mode, unrecognised type, mutually exclusive options)"],
        vacuity=vacuity,
    )
