"""C16 — malformed input yields a diagnostic and a defined exit status, never a crash.

E1 + E3: (i) every REUSE.toml key x every TOML value shape (singles; pairs in
thorough), structurally broken TOML, duplicate keys, invalid UTF-8, nested
files; (ii) broken .reuse/dep5 and dep5 + REUSE.toml conflicts; (iii) covered
files with hostile bytes in header / .license; (iv) LICENSES/ oddities;
(v) I/O faults injected at the k-th file open for every k (every pair in
thorough).  Every case x every subcommand.  Oracle: exit status in {0,1,2}, no
exception escapes main(), a broken configuration file => exit 2 and its path
in the message.
"""
from __future__ import annotations

import errno
import itertools
import json
import os
import time

from ..cli import run_cli
from ..core import HarnessError, R, explore, finish, fresh_dir
from ..envctl import FaultPlan, faulty_open, stub_net, virtual_pool
from ..fstree import materialise, read_tree
from ..lintutil import PNG_HEX

ID = "C16"
MODULE = "mc.checks.c16"
H = "# SPDX-FileCopyrightText: 2020 Jane\n# SPDX-License-Identifier: MIT\n"
KEYS = ["version", "annotations", "path", "precedence", "SPDX-FileCopyrightText", "SPDX-License-Identifier"]
SHAPES = {
    "string": '"x"', "empty-string": '""', "integer": "5", "float": "1.5", "boolean": "true", "datetime": "1979-05-27T07:32:00Z",
    "string-array": '["a", "b"]', "empty-array": "[]", "int-array": "[1, 2]", "table-array": "[{a = 1}]", "inline-table": "{a = 1}",
    "nested-array": '[["a"], ["b"]]', "absent": None,
}
VALID = {"version": "1", "path": '"src/**"', "precedence": '"aggregate"', "SPDX-FileCopyrightText": '"2020 Jane"', "SPDX-License-Identifier": '"MIT"'}
BROKEN_TOML = {
    "unclosed-string": 'version = 1\n[[annotations]]\npath = "src\n', "missing-equals": "version 1\n", "bad-table-header": "version = 1\n[[annotations]\npath = \"x\"\n",
    "duplicate-top-key": "version = 1\nversion = 2\n", "duplicate-key-in-table": 'version = 1\n[[annotations]]\npath = "a"\npath = "b"\n',
    "duplicate-key-in-inline-table": 'version = 1\nx = {a = 1, a = 2}\n', "dotted-key-reopened": 'version = 1\na.b = 1\n[a]\nc = 2\n',
    "table-then-array": 'version = 1\n[annotations]\npath = "x"\n[[annotations]]\npath = "y"\n', "garbage": "\x00\x01\x02 not toml at all {{{\n",
    "only-bom": "﻿", "unterminated-array": 'version = 1\n[[annotations]]\npath = ["a",\n',
    "bad-expression": 'version = 1\n[[annotations]]\npath = "src/**"\nSPDX-License-Identifier = "MIT AND AND"\n',
    "bad-expression-parens": 'version = 1\n[[annotations]]\npath = "src/**"\nSPDX-License-Identifier = "()"\n',
    "bad-precedence": 'version = 1\n[[annotations]]\npath = "src/**"\nprecedence = "loudest"\n',
}
DEP5_HEAD = "Format: https://www.debian.org/doc/packaging-manuals/copyright-format/1.0/\nUpstream-Name: x\n\n"
BROKEN_DEP5 = {
    "not-deb822": "this is :: not a deb822 file\n\x00\n", "missing-files": DEP5_HEAD + "Copyright: 2020 J\nLicense: MIT\n",
    "missing-copyright": DEP5_HEAD + "Files: *\nLicense: MIT\n", "missing-license": DEP5_HEAD + "Files: *\nCopyright: 2020 J\n",
    "bad-escape": DEP5_HEAD + "Files: src/\\q*\nCopyright: 2020 J\nLicense: MIT\n", "bad-synopsis": DEP5_HEAD + "Files: *\nCopyright: 2020 J\nLicense: MIT AND AND\n",
    "empty": "", "only-header": DEP5_HEAD, "no-header": "Files: *\nCopyright: 2020 J\nLicense: MIT\n",
    # fields that are present but hold nothing / odd values (python-debian accepts most of these)
    "empty-copyright": DEP5_HEAD + "Files: *\nCopyright:\nLicense: MIT\n", "blank-copyright": DEP5_HEAD + "Files: *\nCopyright: \n .\nLicense: MIT\n",
    "empty-license": DEP5_HEAD + "Files: *\nCopyright: 2020 J\nLicense:\n", "empty-files": DEP5_HEAD + "Files:\nCopyright: 2020 J\nLicense: MIT\n",
    "duplicate-field": DEP5_HEAD + "Files: *\nCopyright: 2020 J\nCopyright: 2021 K\nLicense: MIT\n",
    "standalone-license-paragraph": DEP5_HEAD + "Files: *\nCopyright: 2020 J\nLicense: MIT\n\nLicense: MIT\n text of the licence\n",
    "two-headers": DEP5_HEAD + DEP5_HEAD + "Files: *\nCopyright: 2020 J\nLicense: MIT\n", "crlf": (DEP5_HEAD + "Files: *\nCopyright: 2020 J\nLicense: MIT\n").replace("\n", "\r\n"),
    "license-with-text": DEP5_HEAD + "Files: *\nCopyright: 2020 J\nLicense: MIT\n Permission is hereby granted\n .\n more\n",
}
COMMANDS = ["lint", "lint-json", "lint-file", "spdx", "annotate", "annotate-terminator", "download-all", "convert-dep5", "supported-licenses"]
HOSTILE_GLOBS = ["src/data\\", "\\", "a\\\\\\", "**\\", "[", "[a-", "?", "", " ", "*" * 60, "a/../b", "/abs/path", "./x", "a//b", "**/**/**", "\\\\", "{a,b}", "a\nb", "\u0000",
                 "é/ü", "~", "$HOME", "%s", "(", ")", "(?P<x>", "+", "^$", "|", "a|b"]


# files the VCS layer reads on the tool's behalf, inside a Git repository
GITMODULES = {
    "valueless-path": b'[submodule "x"]\n\tpath\n\turl = https://example.com/x\n', "empty-path": b'[submodule "x"]\n\tpath =\n',
    "invalid-utf8-path": b'[submodule "x"]\n\tpath = sub\xff\xfe\n', "invalid-utf8-name": b'[submodule "x\xff"]\n\tpath = src\n',
    "broken-syntax": b'[submodule "x"\n path = = \n', "empty-file": b"", "path-with-newline": b'[submodule "x"]\n\tpath = "a\\nb"\n',
    "nul-byte": b'[submodule "x"]\n\tpath = su\x00b\n', "absolute-path": b'[submodule "x"]\n\tpath = /etc\n', "dotdot-path": b'[submodule "x"]\n\tpath = ../..\n',
    "duplicate-path": b'[submodule "x"]\n\tpath = src\n\tpath = src\n', "path-is-covered-dir": b'[submodule "x"]\n\tpath = src\n',
    "only-path-key-elsewhere": b'[other]\n\tpath = src\n\tmy.path = x\n', "crlf": b'[submodule "x"]\r\n\tpath = src\r\n', "long-value": b'[submodule "x"]\n\tpath = ' + b"p" * 70000 + b"\n",
    "bom": b'\xef\xbb\xbf[submodule "x"]\n\tpath = src\n',
}
GITIGNORE = {"invalid-utf8": b"\xff\xfe*\n", "everything": b"*\n", "lone-bang": b"!\n", "lone-backslash": b"\\\n", "open-bracket": b"[\n", "nul": b"a\x00b\n",
             "long-line": b"x" * 70000 + b"\n", "crlf": b"src\r\n", "ignores-config": b"REUSE.toml\nLICENSES\n.reuse\n"}


def toml_with(repl: dict) -> str:
    vals = dict(VALID)
    annotations_override = None
    for k, shape in repl.items():
        v = SHAPES[shape]
        if k == "annotations":
            annotations_override = v
        else:
            vals[k] = v
    out = []
    if vals["version"] is not None:
        out.append(f"version = {vals['version']}")
    if "annotations" in repl:
        if annotations_override is not None:
            out.append(f"annotations = {annotations_override}")
        return "\n".join(out) + "\n"
    out += ["", "[[annotations]]"]
    for k in ("path", "precedence", "SPDX-FileCopyrightText", "SPDX-License-Identifier"):
        if vals[k] is not None:
            out.append(f"{k} = {vals[k]}")
    return "\n".join(out) + "\n"


BASE = {"src/a.py": H + "a = 1\n", "src/b.c": "int b;\n", "LICENSES/MIT.txt": "mit\n"}


def bounds(tier, seed):
    return {"toml_keys": KEYS, "toml_shapes": list(SHAPES), "toml_pairs": tier == "thorough", "broken_toml": list(BROKEN_TOML), "broken_dep5": list(BROKEN_DEP5),
            "expression_tokens": EXPR_TOKENS, "expression_max_tokens": 3 if tier == "quick" else 4, "broken_templates": 9, "license_sibling_states": list(SIBLING_STATES), "gitmodules_shapes": list(GITMODULES), "gitignore_shapes": list(GITIGNORE), "byte_classes": list(byte_classes()), "commands": COMMANDS, "io_fault_errnos": ["EACCES", "ENOENT", "EISDIR", "EIO"],
            "io_faults": "every single k-th open" + (" and every pair" if tier == "thorough" else "")}


def byte_classes():
    return {
        "nul": b"\x00\x00\x00" + H.encode() + b"x\n", "invalid-utf8-in-tag": b"# SPDX-License-\xff\xfeIdentifier: MIT\n# SPDX-FileCopyrightText: 2020 J\n",
        "invalid-utf8-in-value": b"# SPDX-License-Identifier: MIT\n# SPDX-FileCopyrightText: 2020 J\xe9\xff\n", "lone-cr": H.replace("\n", "\r").encode(),
        "long-line": b"# " + b"x" * 65536 + b"\n" + H.encode(), "long-line-snippet": b"# SPDX-SnippetBegin\n# " + b"y" * 65536 + b"\n" + H.encode(),
        "bad-expression": b"# SPDX-License-Identifier: MIT AND AND\n# SPDX-FileCopyrightText: 2020 J\n", "bom": b"\xef\xbb\xbf" + H.encode(),
        "empty-parens-expression": b"# SPDX-License-Identifier: ()\n# SPDX-FileCopyrightText: 2020 J\n", "latin1-text": "# Copyright 2020 J\xfcrgen\ncode\n".encode("latin-1"),
        "utf16": "# SPDX-License-Identifier: MIT\n".encode("utf-16"),
    }


def cases(tier, seed):
    for k in KEYS:
        for sh in SHAPES:
            for where in ("root", "nested"):
                yield {"k": "toml", "repl": {k: sh}, "where": where}
    if tier == "thorough":
        for (k1, k2) in itertools.combinations(KEYS, 2):
            for s1 in SHAPES:
                for s2 in SHAPES:
                    yield {"k": "toml", "repl": {k1: s1, k2: s2}, "where": "root"}
    else:
        ks = KEYS[seed % 6]
        for k2 in KEYS:
            if k2 != ks:
                for s1 in SHAPES:
                    yield {"k": "toml", "repl": {ks: s1, k2: list(SHAPES)[(seed + 3) % len(SHAPES)]}, "where": "root"}
    for name in BROKEN_TOML:
        for where in ("root", "nested"):
            yield {"k": "broken-toml", "name": name, "where": where}
    for gi in range(len(HOSTILE_GLOBS)):
        for where in ("root", "nested"):
            yield {"k": "glob", "glob": gi, "where": where}
    yield {"k": "broken-toml", "name": "invalid-utf8", "where": "root"}
    yield {"k": "broken-toml", "name": "empty-file", "where": "root"}
    for name in BROKEN_DEP5:
        yield {"k": "dep5", "name": name}
    for combo in ("dep5+root-toml", "dep5+nested-toml", "dep5-invalid-utf8", "dep5-is-directory", "toml-is-directory"):
        yield {"k": "dep5", "name": combo}
    for name in GITMODULES:
        yield {"k": "vcsmeta", "file": ".gitmodules", "name": name}
    for name in GITIGNORE:
        yield {"k": "vcsmeta", "file": ".gitignore", "name": name}
    n = 3 if tier == "quick" else 4
    for k in range(0, n + 1):
        for tup in itertools.product(range(len(EXPR_TOKENS)), repeat=k):
            for place in ("header", "toml", "dot-license"):
                yield {"k": "expr", "toks": list(tup), "place": place}
    for depth in DEPTHS:
        for place in ("header", "toml", "dot-license"):
            yield {"k": "expr", "depth": depth, "place": place}
    for n in (240, 248, 250, 254, 255):
        for kind in ("text", "binary"):
            yield {"k": "longname", "n": n, "kind": kind}
    for state in SIBLING_STATES:
        for target in ("binary", "force-dot-license", "fallback-dot-license"):
            yield {"k": "sibling", "state": state, "target": target}
    for place in SPECIAL_PLACES:
        for kind in ("fifo", "directory"):
            for cmd in ("lint", "lint-file", "spdx", "annotate", "convert-dep5"):
                yield {"k": "special", "place": place, "kind": kind, "cmd": cmd}
    from ..annot import TEMPLATES

    for name in TEMPLATES:
        if name.startswith("broken-"):
            for target in ("in-file", "force-dot-license", "fallback-dot-license"):
                yield {"k": "template", "name": name, "target": target}
    for cls in byte_classes():
        for place in ("header", "dot-license"):
            yield {"k": "bytes", "cls": cls, "place": place}
    for name in ("duplicate-identifier", "licenseref-invalid-utf8", "licenses-is-file", "license-symlink-loop", "license-dir-named-like-file"):
        yield {"k": "licenses", "name": name}
    for cmd in ("lint-json", "spdx", "annotate", "lint-file"):
        for err in ("EACCES", "ENOENT", "EISDIR", "EIO"):
            for kth in range(0, 18):
                yield {"k": "io", "cmd": cmd, "err": err, "kth": [kth]}
    if tier == "thorough":
        for cmd in ("lint-json", "spdx"):
            for err in ("EACCES", "EIO"):
                for a, b in itertools.combinations(range(10), 2):
                    yield {"k": "io", "cmd": cmd, "err": err, "kth": [a, b]}


def run_command(cmd, root):
    base = ["--root", str(root), "--no-multiprocessing"]
    if cmd == "lint":
        return run_cli(base + ["lint"])
    if cmd == "lint-json":
        return run_cli(base + ["lint", "--json"])
    if cmd == "lint-file":
        return run_cli(base + ["lint-file", str(root / "src/a.py"), str(root / "src/b.c")])
    if cmd == "spdx":
        return run_cli(base + ["spdx"])
    if cmd == "spdx-concluded":
        return run_cli(base + ["spdx", "--add-license-concluded", "--creator-person", "P", "--creator-organization", "O"])
    if cmd == "annotate":
        return run_cli(base + ["annotate", "--copyright", "Kim", "--year", "2020", str(root / "src/b.c")])
    if cmd == "annotate-terminator":
        return run_cli(base + ["annotate", "--copyright", "Kim */ --> Corp", "--year", "2020", str(root / "src/b.c"), str(root / "src/a.py")])
    if cmd == "download-all":
        with stub_net(lambda ident: ("ok", b"text of " + ident.encode())), virtual_pool({"chunksize": 1000}):
            return run_cli(["--root", str(root), "download", "--all"])
    if cmd == "convert-dep5":
        return run_cli(base + ["convert-dep5"])
    if cmd == "supported-licenses":
        return run_cli(base + ["supported-licenses"])
    raise AssertionError(cmd)


def judge(r: R, out, cmd, label, sigbase, config_path=None, must_be_config_error=False):
    if out.exc is not None:
        r.violation(f"crash|{sigbase}|{out.exc}", f"{label}: `reuse {cmd}` ended in an unhandled {out.exc_repr}")
        return
    if out.exit_code not in (0, 1, 2):
        r.violation(f"exit-status|{sigbase}", f"{label}: `reuse {cmd}` exit status {out.exit_code}")
        return
    if must_be_config_error and cmd not in ("supported-licenses",):
        if out.exit_code != 2:
            if not (cmd == "convert-dep5" and out.exit_code in (1, 2)):
                r.violation(f"broken-config-accepted|{sigbase}", f"{label}: `reuse {cmd}` exit status {out.exit_code}, expected a configuration error (2)")
        elif config_path and os.path.basename(config_path) not in (out.stderr + out.stdout):
            r.violation(f"config-error-does-not-name-file|{sigbase}", f"{label}: `reuse {cmd}` exit 2 but the message does not name {config_path}: {out.stderr[-300:]!r}")
    elif out.exit_code == 2 and config_path and cmd not in ("convert-dep5",) and os.path.basename(config_path) not in (out.stderr + out.stdout):
        r.violation(f"config-error-does-not-name-file|{sigbase}", f"{label}: `reuse {cmd}` exit 2 but the message does not name {config_path}: {out.stderr[-300:]!r}")


def ev_toml(c) -> R:
    r = R()
    text = toml_with(c["repl"])
    outs = []
    for cmd in COMMANDS:
        root = fresh_dir("c16")
        rec = dict(BASE)
        cfg = "REUSE.toml" if c["where"] == "root" else "src/REUSE.toml"
        rec[cfg] = text
        if c["where"] == "nested":
            rec["REUSE.toml"] = "version = 1\n"
        materialise(root, rec)
        out = run_command(cmd, root)
        label = f"{cfg} with " + ", ".join(f"{k} = {SHAPES[s]}" for k, s in c["repl"].items())
        # values of a plainly wrong TOML type are a configuration error (nothing is said here about odd-but-typed values)
        wrong = any((k == "version" and s not in ("integer", "absent")) or
                    (k in ("path", "precedence", "SPDX-FileCopyrightText", "SPDX-License-Identifier") and "annotations" not in c["repl"]
                     and s in ("integer", "float", "boolean", "datetime", "int-array", "table-array", "inline-table", "nested-array"))
                    for k, s in c["repl"].items())
        judge(r, out, cmd, label, "toml|" + "+".join(f"{k}:{s}" for k, s in sorted(c["repl"].items())), config_path=cfg, must_be_config_error=wrong)
        outs.append(out.exit_code)
    r.evals = len(COMMANDS)
    r.outcome = f"toml-exit{max(outs[:2])}"
    r.nontrivial = any(s not in ("absent",) for s in c["repl"].values())
    r.tags.append("toml")
    return r


def ev_glob(c) -> R:
    """Hostile strings as REUSE.toml path globs (every string is a valid TOML string)."""
    r = R()
    g = HOSTILE_GLOBS[c["glob"]]
    cfg = "REUSE.toml" if c["where"] == "root" else "src/REUSE.toml"
    text = "version = 1\n\n[[annotations]]\npath = [%s, \"src/**\"]\nSPDX-FileCopyrightText = \"2020 J\"\nSPDX-License-Identifier = \"MIT\"\n" % json.dumps(g)
    for cmd in COMMANDS:
        root = fresh_dir("c16")
        rec = dict(BASE)
        rec[cfg] = text
        if c["where"] == "nested":
            rec["REUSE.toml"] = "version = 1\n"
        materialise(root, rec)
        out = run_command(cmd, root)
        judge(r, out, cmd, f"{cfg} with path glob {g!r}", f"glob|{g!r}", config_path=cfg)
    r.evals = len(COMMANDS)
    r.outcome = "glob"
    r.tags.append("glob")
    return r


def ev_broken_toml(c) -> R:
    r = R()
    cfg = "REUSE.toml" if c["where"] == "root" else "src/REUSE.toml"
    for cmd in COMMANDS:
        root = fresh_dir("c16")
        rec = dict(BASE)
        if c["name"] == "invalid-utf8":
            rec[cfg] = {"hex": (b'version = 1\n# \xff\xfe\n[[annotations]]\npath = "\xe9"\n').hex()}
        elif c["name"] == "empty-file":
            rec[cfg] = {"empty": True}
        else:
            rec[cfg] = BROKEN_TOML[c["name"]]
        if c["where"] == "nested":
            rec["REUSE.toml"] = "version = 1\n"
        materialise(root, rec)
        out = run_command(cmd, root)
        must = c["name"] not in ("empty-file", "only-bom")
        judge(r, out, cmd, f"{cfg} {c['name']}", f"broken-toml|{c['name']}", config_path=cfg, must_be_config_error=must)
    r.evals = len(COMMANDS)
    r.outcome = "broken-toml"
    r.tags.append("broken-toml")
    return r


def ev_vcsmeta(c) -> R:
    from .. import gitrepo

    r = R()
    content = (GITMODULES if c["file"] == ".gitmodules" else GITIGNORE)[c["name"]]
    for cmd in COMMANDS:
        root = fresh_dir("c16")
        rec = dict(BASE)
        rec["REUSE.toml"] = toml_with({})
        rec[c["file"]] = {"hex": content.hex()} if content else {"empty": True}
        materialise(root, rec)
        gitrepo.init(root)
        out = run_command(cmd, root)
        judge(r, out, cmd, f"Git repository whose {c['file']} is {c['name']} ({content[:60]!r})", f"vcsmeta|{c['file']}|{c['name']}")
    r.evals = len(COMMANDS)
    r.outcome = "vcsmeta"
    r.tags.append("vcsmeta")
    return r


DEPTHS = [40, 120, 250, 380]
EXPR_TOKENS = ["MIT", "AND", "OR", "WITH", "(", ")", "MIT+", "Bison-exception-2.2", "+"]


def ev_expr(c) -> R:
    """Every token sequence as the value of a licence tag / REUSE.toml key: no parser exception may escape any command."""
    r = R()
    if "depth" in c:
        # well-formed, but nested: '(MIT OR (0BSD AND (MIT OR ... MIT)))'; 380 levels still fit into the 4 KiB the tool reads of a header
        expr = "MIT"
        for i in range(c["depth"]):
            expr = f"({'MIT' if i % 4 < 2 else '0BSD'} {'AND' if i % 2 else 'OR'} {expr})"
    else:
        expr = " ".join(EXPR_TOKENS[i] for i in c["toks"])
    for cmd in ("lint-json", "lint-file", "spdx", "annotate") + (("lint", "spdx-concluded", "download-all") if "depth" in c else ()):
        root = fresh_dir("c16")
        rec = dict(BASE)
        if c["place"] == "header":
            rec["src/b.c"] = f"/*\n * SPDX-FileCopyrightText: 2020 J\n * SPDX-License-Identifier: {expr}\n */\nint b;\n"
        elif c["place"] == "dot-license":
            rec["src/b.c.license"] = f"SPDX-FileCopyrightText: 2020 J\nSPDX-License-Identifier: {expr}\n"
        else:
            rec["REUSE.toml"] = ("version = 1\n\n[[annotations]]\npath = \"src/b.c\"\nprecedence = \"aggregate\"\nSPDX-FileCopyrightText = \"2020 J\"\n"
                                 "SPDX-License-Identifier = %s\n" % json.dumps(expr))
        materialise(root, rec)
        out = run_command(cmd, root)
        judge(r, out, cmd, f"licence expression {expr[:60]!r} in {c['place']}", f"expr|{c['place']}|{cmd}" + ("|nested" if "depth" in c else ""), config_path="REUSE.toml" if c["place"] == "toml" else None)
    r.evals = 4
    r.outcome = "expr"
    r.tags.append("expr")
    return r


def ev_longname(c) -> R:
    """A covered file whose name is so long that NAME.license is no possible file name (255 bytes is the limit of most file systems)."""
    r = R()
    ext = ".py" if c["kind"] == "text" else ".png"
    name = "n" * (c["n"] - len(ext)) + ext
    for cmd in ("lint-json", "spdx", "lint-file", "annotate", "annotate-r"):
        root = fresh_dir("c16")
        rec = dict(BASE)
        rec["REUSE.toml"] = toml_with({})
        rec["src/" + name] = (H + "x = 1\n") if c["kind"] == "text" else {"hex": "89504e470d0a1a0a0000000d49484452"}
        try:
            materialise(root, rec)
        except OSError as e:
            raise HarnessError(f"cannot create a {c['n']}-byte name here: {e}")
        base = ["--root", str(root), "--no-multiprocessing"]
        if cmd == "lint-file":
            out = run_cli(base + ["lint-file", str(root / "src" / name), str(root / "src/a.py")])
        elif cmd == "annotate":
            out = run_cli(base + ["annotate", "--copyright", "Kim", "--year", "2020", str(root / "src" / name), str(root / "src/b.c")])
        elif cmd == "annotate-r":
            out = run_cli(base + ["annotate", "--copyright", "Kim", "--year", "2020", "--recursive", "--skip-unrecognised", str(root / "src")])
        else:
            out = run_command(cmd, root)
        judge(r, out, cmd, f"covered {c['kind']} file with a {c['n']}-byte name", f"longname|{c['kind']}|{cmd}")
        if cmd == "lint-json" and out.exc is None and c["kind"] == "text" and out.stdout.startswith("{"):
            data = json.loads(out.stdout)
            if data["non_compliant"]["read_errors"]:
                r.violation(f"longname|readable-file-reported-as-read-error|n={c['n']}", f"a readable, fully tagged file with a {c['n']}-byte name is listed under read errors")
    r.evals = 5
    r.outcome = "longname"
    r.tags.append("longname")
    return r


SIBLING_STATES = {"fifo": {"fifo": True}, "directory": {"dir": True}, "dangling-symlink": {"symlink": "does-not-exist"}, "symlink-loop": None, "symlink-to-directory": {"symlink": "src"},
                  "invalid-utf8": {"hex": "fffe5350"}, "read-only-empty": {"empty": True, "mode": 0o444}, "symlink-to-file": {"symlink": "src/a.py"}}


def ev_sibling(c) -> R:
    """FILE.license exists in an odd state when annotate wants to use it; lint / spdx read the same tree."""
    r = R()
    name = {"binary": "img.png", "force-dot-license": "src/b.c", "fallback-dot-license": "data.xyz"}[c["target"]]
    for cmd in ("annotate", "lint", "lint-json", "spdx"):
        root = fresh_dir("c16")
        rec = dict(BASE)
        rec["REUSE.toml"] = toml_with({})
        rec["img.png"] = {"hex": "89504e470d0a1a0a0000000d49484452"}
        rec["data.xyz"] = "data\n"
        spec = SIBLING_STATES[c["state"]]
        rec[name + ".license"] = spec if spec is not None else {"symlink": os.path.basename(name) + ".license"}
        materialise(root, rec)
        if cmd == "annotate":
            argv = ["--root", str(root), "annotate", "--copyright", "Kim", "--license", "MIT", "--year", "2020"]
            if c["target"] != "binary":
                argv.append("--" + c["target"])
            out = run_cli(argv + [str(root / name), str(root / "src/a.py")])
        else:
            out = run_command(cmd, root)
        judge(r, out, cmd, f"{name}.license is a {c['state']} ({c['target']})", f"sibling|{c['state']}|{cmd}")
        if cmd == "lint-json" and out.exc is None and out.stdout.startswith("{") and c["state"] in ("fifo", "directory", "dangling-symlink", "symlink-loop"):
            # something that is no file is no sidecar: the file itself is read, and it can be read
            data = json.loads(out.stdout)
            if any(e.endswith("/" + name) or e == name for e in data["non_compliant"]["read_errors"]):
                r.violation(f"sibling|{c['state']}|readable-file-is-a-read-error", f"{name}.license is a {c['state']}: lint lists the readable file {name} under read errors")
    r.evals = 4
    r.outcome = "sibling"
    r.tags.append("sibling")
    return r


# names the tool opens without having listed them as covered files: something that is no regular file may sit there
SPECIAL_PLACES = [".reuse/dep5", "REUSE.toml", "src/REUSE.toml", "LICENSES/LicenseRef-x.txt", "LICENSES/0BSD.txt", ".reuse/templates/t.jinja2", "src/b.c.license"]
SPECIAL_TIMEOUT = 60


def ev_special(c) -> R:
    """A named pipe (no writer: opening it blocks for ever) or a directory where the tool expects a configuration file, a licence text or a
    template.  Run as a real process with a time limit: the command must end, with a defined status and without a traceback."""
    import subprocess
    import sys

    r = R()
    root = fresh_dir("c16")
    rec = dict(BASE)
    rec["src/b.c"] = H + "int b;\n"
    rec[c["place"]] = {"fifo": True} if c["kind"] == "fifo" else {"dir": True}
    materialise(root, rec)
    cmd = c["cmd"]
    argv = {"lint": ["lint"], "lint-file": ["lint-file", "src/a.py"], "spdx": ["spdx"], "convert-dep5": ["convert-dep5"],
            "annotate": ["annotate", "--copyright", "Kim", "--year", "2020", *(["--template", "t"] if "templates" in c["place"] else []), "src/a.py"]}[cmd]
    label = f"{c['place']} is a {c['kind']}: `reuse {' '.join(argv)}`"
    sig = f"special|{c['place']}|{c['kind']}|{cmd}"
    env = dict(os.environ, LC_ALL="C.UTF-8", PYTHONIOENCODING="utf-8")
    try:
        p = subprocess.run([sys.executable, "-m", "reuse", "--no-multiprocessing", *argv], cwd=str(root), env=env, capture_output=True, text=True, timeout=SPECIAL_TIMEOUT,
                           stdin=subprocess.DEVNULL)
    except subprocess.TimeoutExpired:
        r.violation(f"blocks|{sig}", f"{label} does not end within {SPECIAL_TIMEOUT} s (it waits for a writer to open the pipe)")
    else:
        if "Traceback (most recent call last)" in p.stderr:
            r.violation(f"crash|{sig}", f"{label} ended in a traceback: {p.stderr.strip().splitlines()[-1][:200]}")
        elif p.returncode not in (0, 1, 2):
            r.violation(f"exit-status|{sig}", f"{label} exit status {p.returncode}")
        r.notes.append(f"special-exit{p.returncode}")
    r.outcome = "special"
    r.tags.append("special")
    return r


def ev_template(c) -> R:
    """A template file below .reuse/templates is a project file too."""
    from ..annot import template_recipe

    r = R()
    root = fresh_dir("c16")
    rec = dict(BASE)
    rec["REUSE.toml"] = toml_with({})
    rec.update(template_recipe([c["name"]]))
    rec["data.xyz"] = "data\n"
    materialise(root, rec)
    argv = ["--root", str(root), "annotate", "--copyright", "Kim", "--license", "MIT", "--year", "2020", "--template", c["name"]]
    if c["target"] != "in-file":
        argv.append("--" + c["target"])
    paths = [str(root / "src/b.c"), str(root / "src/a.py")] + ([str(root / "data.xyz")] if c["target"] == "fallback-dot-license" else [])
    out = run_cli(argv + paths)
    judge(r, out, "annotate --template", f"template {c['name']} ({c['target']})", f"template|{c['name']}")
    if out.exc is None and out.exit_code == 0:
        r.violation(f"broken-template-accepted|{c['name']}", f"template {c['name']}: annotate exit 0")
    r.outcome = "template"
    r.tags.append("template")
    return r


def ev_dep5(c) -> R:
    r = R()
    for cmd in COMMANDS:
        root = fresh_dir("c16")
        rec = dict(BASE)
        cfg = ".reuse/dep5"
        must = True
        n = c["name"]
        if n in BROKEN_DEP5:
            rec[cfg] = BROKEN_DEP5[n] if BROKEN_DEP5[n] else {"empty": True}
            must = n not in ("license-with-text", "only-header", "empty", "no-header", "missing-files")
            # (a Files pattern that cannot be compiled and a synopsis that cannot be parsed ARE errors of this file: 'bad-escape', 'bad-synopsis')
            if n in ("only-header", "empty", "no-header", "missing-files", "missing-copyright", "missing-license", "not-deb822",
                     "empty-copyright", "blank-copyright", "empty-license", "empty-files", "duplicate-field", "standalone-license-paragraph", "two-headers", "crlf"):
                must = False  # whether python-debian accepts these is not ours to say: only "no crash, defined exit status"
        elif n == "dep5+root-toml":
            rec[cfg] = DEP5_HEAD + "Files: *\nCopyright: 2020 J\nLicense: MIT\n"
            rec["REUSE.toml"] = "version = 1\n"
        elif n == "dep5+nested-toml":
            rec[cfg] = DEP5_HEAD + "Files: *\nCopyright: 2020 J\nLicense: MIT\n"
            rec["src/REUSE.toml"] = "version = 1\n"
        elif n == "dep5-invalid-utf8":
            rec[cfg] = {"hex": (DEP5_HEAD.encode() + b"Files: *\nCopyright: 2020 J\xff\xfe\nLicense: MIT\n").hex()}
        elif n == "dep5-is-directory":
            rec[cfg + "/x"] = "x\n"
            must = False
        elif n == "toml-is-directory":
            rec["REUSE.toml/x"] = "x\n"
            must = False
        materialise(root, rec)
        out = run_command(cmd, root)
        judge(r, out, cmd, f"dep5 case {n}", f"dep5|{n}", config_path=".reuse/dep5" if n in BROKEN_DEP5 and cmd != "convert-dep5" else None, must_be_config_error=must)
    r.evals = len(COMMANDS)
    r.outcome = "dep5"
    r.tags.append("dep5")
    return r


def ev_bytes(c) -> R:
    r = R()
    data = byte_classes()[c["cls"]]
    for cmd in COMMANDS:
        root = fresh_dir("c16")
        rec = dict(BASE)
        if c["place"] == "header":
            rec["src/b.c"] = {"hex": data.hex()}
        else:
            rec["src/b.c"] = "int b;\n"
            rec["src/b.c.license"] = {"hex": data.hex()}
        rec["src/c.py"] = H + "c = 1\n"
        materialise(root, rec)
        out = run_command(cmd, root)
        judge(r, out, cmd, f"covered file with {c['cls']} bytes in its {c['place']}", f"bytes|{c['cls']}|{c['place']}")
        if cmd == "lint-json" and out.exc is None and out.exit_code in (0, 1):
            try:
                files = {f["path"] for f in json.loads(out.stdout)["files"]}
                errs = json.loads(out.stdout)["non_compliant"]["read_errors"]
            except ValueError:
                r.violation(f"lint-json-not-json|bytes|{c['cls']}", f"lint --json output is not JSON for {c['cls']}")
                continue
            if not {"src/a.py", "src/c.py"} <= files:
                r.violation(f"other-files-not-reported|bytes|{c['cls']}", f"{c['cls']} in src/b.c: the other files are missing from the report: {sorted(files)}")
            if "src/b.c" not in files and not any(e.endswith("src/b.c") for e in errs):
                r.violation(f"hostile-file-vanished|bytes|{c['cls']}", f"{c['cls']}: src/b.c neither in files[] nor in read_errors")
    r.evals = len(COMMANDS)
    r.outcome = "bytes"
    r.tags.append("bytes")
    return r


def ev_licenses(c) -> R:
    r = R()
    for cmd in COMMANDS:
        root = fresh_dir("c16")
        rec = dict(BASE)
        n = c["name"]
        if n == "duplicate-identifier":
            rec["LICENSES/MIT.md"] = "also mit\n"
        elif n == "licenseref-invalid-utf8":
            rec["LICENSES/LicenseRef-bin.txt"] = {"hex": b"licence \xff\xfe text\n".hex()}
            rec["src/a.py"] = H.replace("MIT", "MIT AND LicenseRef-bin")
        elif n == "licenses-is-file":
            rec.pop("LICENSES/MIT.txt")
            rec["LICENSES"] = "i am a file\n"
        elif n == "license-symlink-loop":
            rec["LICENSES/loop.txt"] = {"symlink": "loop.txt"}
        elif n == "license-dir-named-like-file":
            rec["LICENSES/0BSD.txt/inner"] = "x\n"
        materialise(root, rec)
        out = run_command(cmd, root)
        judge(r, out, cmd, f"LICENSES/ case {n}", f"licenses|{n}")
    r.evals = len(COMMANDS)
    r.outcome = "licenses"
    r.tags.append("licenses")
    return r


def ev_io(c) -> R:
    r = R()
    root = fresh_dir("c16")
    rec = dict(BASE)
    rec["src/c.py"] = H.replace("MIT", "MIT AND LicenseRef-own") + "c = 1\n"
    rec["LICENSES/LicenseRef-own.txt"] = "the text of a custom licence (spdx copies it into the document)\n"
    rec["REUSE.toml"] = 'version = 1\n\n[[annotations]]\npath = "src/b.c"\nSPDX-FileCopyrightText = "2020 B"\nSPDX-License-Identifier = "MIT"\n'
    materialise(root, rec)
    pre = str(root) + "/"
    counter = {"n": 0, "fired": []}
    err = getattr(errno, c["err"])

    class Plan(FaultPlan):
        def check(self, path, mode="r"):
            try:
                p = os.path.abspath(os.fspath(path))
            except TypeError:
                return
            if isinstance(p, bytes) or not p.startswith(pre):
                return
            k = counter["n"]
            counter["n"] += 1
            if k in c["kth"]:
                counter["fired"].append(p[len(pre):])
                raise OSError(err, os.strerror(err), p)

    with faulty_open(Plan(lambda p: True)):
        out = run_command(c["cmd"], root)
    fired = counter["fired"]
    label = f"{c['err']} injected at open #{c['kth']} ({fired}) during `reuse {c['cmd']}`"
    what = "config" if any(f.endswith("REUSE.toml") for f in fired) else ("license" if any(f.startswith("LICENSES") for f in fired) else "file")
    judge(r, out, c["cmd"], label, f"io|{c['cmd']}|{c['err']}|{what}")
    if c["cmd"] == "lint-json" and out.exc is None and out.exit_code in (0, 1) and fired and what == "file":
        data = json.loads(out.stdout)
        files = {f["path"] for f in data["files"]}
        errs = {e[len(pre):] if e.startswith(pre) else e for e in data["non_compliant"]["read_errors"]}
        for f in ("src/a.py", "src/b.c", "src/c.py"):
            if f not in files and f not in errs:
                r.violation(f"io-file-vanished|{c['err']}", f"{label}: {f} neither in files[] nor in read_errors")
    r.outcome = f"io-{'fired' if fired else 'not-reached'}-exit{out.exit_code}"
    r.nontrivial = bool(fired)
    r.tags.append("io")
    return r


_EV = {"special": ev_special, "longname": ev_longname, "expr": ev_expr, "sibling": ev_sibling, "vcsmeta": ev_vcsmeta, "template": ev_template, "glob": ev_glob, "toml": ev_toml, "broken-toml": ev_broken_toml, "dep5": ev_dep5, "bytes": ev_bytes, "licenses": ev_licenses, "io": ev_io}


def evaluate(c) -> R:
    return _EV[c["k"]](c)


def vacuity(st):
    for t in _EV:
        if st.tags.get(t, 0) < 3:
            return f"slice {t} did not run"
    if not any(o.startswith("io-fired") for o in st.outcomes):
        return "no injected fault ever fired"
    return None


def run(tier, seed):
    t0 = time.time()
    st = explore(MODULE, tier, seed)
    return finish(
        ID, "fault_enumeration", MODULE, tier, seed, st, t0,
        rule=("every REUSE.toml key x every TOML value shape (root and nested file; pairs of keys: one key row per seed in quick, all in thorough), "
              "15 structurally broken TOML files, 18 broken or odd dep5 files + conflicts, 16 .gitmodules and 9 .gitignore shapes inside a Git repository, 9 unloadable / unrenderable templates x 3 targets, every licence-expression token sequence up to the bound x {header, .license, REUSE.toml} x 4 commands, 8 odd states of FILE.license x 3 ways annotate gets to it, 11 hostile byte classes x {header, .license}, 5 LICENSES/ oddities, and an "
              "I/O fault (4 errnos) injected at the k-th open of a project file for every k (and every pair in thorough), each under 8 subcommands (4 for "
              "I/O faults); oracle: exit status in {0,1,2}, no escaping exception, configuration errors exit 2 naming the file, other files still reported; "
              "non-trivial = the malformed value / fault was actually reached"),
        bounds=bounds(tier, seed),
        assumptions=["whether python-debian accepts a structurally odd dep5 file is not judged, only that the outcome is a defined exit status without traceback",
                     "the network is a local stub; `download --all` runs on the virtual pool"],
        vacuity=vacuity,
    )
