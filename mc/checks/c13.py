"""C13 — every lint output format and lint-file tell the same story.

E1 on the C01 state space: for every tree the four lint invocations are run
and reduced to {category -> offender set}; they must agree with each other and
with the exit status, and the JSON summary must equal the sizes of the JSON's
own lists.  For every subset of a 5-element path menu x 4 path spellings,
`reuse lint-file` must report exactly the per-file problems lint reports.
"""
from __future__ import annotations

import itertools
import json
import os
import re
import time

from .. import projects
from ..cli import run_cli
from ..core import HarnessError, R, explore, finish, fresh_dir
from ..fstree import materialise
from ..envctl import FaultPlan, faulty_open
from ..refmodel import inventory as inv
from .c01 import build

ID = "C13"
MODULE = "mc.checks.c13"


def bounds(tier, seed):
    return {"bases": projects.BASE_NAMES, "formats_max_defects": 2 if tier == "quick" else 3,
            "lintfile_max_defects": 1 if tier == "quick" else 2, "lintfile_menu": 5, "lintfile_subsets": 32,
            "spellings": ["relative-to-root", "relative-to-subdir", "absolute", "dotdot"]}


DEP5 = "Format: https://www.debian.org/doc/packaging-manuals/copyright-format/1.0/\nUpstream-Name: x\n\n"
HDR = "# SPDX-FileCopyrightText: 2020 Jane\n# SPDX-License-Identifier: MIT\n"
# stand-alone trees outside the defect lattice (no verdict model needed: C13's oracle is the agreement of the formats)
EXTRAS = {
    # fields in forms that deb822 allows: a value that starts on the continuation line, '.' for an empty line, a License field without synopsis
    "dep5-odd-fields": {
        "recipe": {".reuse/dep5": DEP5 + "Files: src/ok.py\nCopyright:\n 2020 Jane\n .\n 2021 John\nLicense: MIT\n\nFiles: src/broken.py docs/*\nCopyright: 2020 Jane\nLicense:\n text of some licence\n .\n more text\n",
                   "src/ok.py": "x = 1\n", "src/broken.py": "y = 1\n", "docs/also.md": "doc\n", "src/own.py": HDR, "LICENSES/MIT.txt": "mit\n", "LICENSE": "text\n"},
        "roles": {"h": "src/ok.py", "f": "src/broken.py", "g": "docs/also.md", "k": "src/own.py"}, "licenses": ["LICENSES/MIT.txt"]},
    "toml-odd-values": {
        "recipe": {"REUSE.toml": 'version = 1\n\n[[annotations]]\npath = ["src/**", "docs/*"]\nprecedence = "aggregate"\nSPDX-FileCopyrightText = ["", "2020 Jane"]\nSPDX-License-Identifier = ["MIT", "MIT"]\n',
                   "src/ok.py": "x = 1\n", "src/broken.py": "# SPDX-License-Identifier: Nope-1.0\n", "docs/also.md": "doc\n", "src/own.py": HDR, "LICENSES/MIT.txt": "mit\n", "LICENSE": "text\n"},
        "roles": {"h": "src/ok.py", "f": "src/broken.py", "g": "docs/also.md", "k": "src/own.py"}, "licenses": ["LICENSES/MIT.txt"]},
}


def build13(case, dirname):
    if "extra" not in case:
        return build(case, dirname)
    e = EXTRAS[case["extra"]]
    root = fresh_dir(dirname)
    materialise(root, e["recipe"])
    return {"name": case["extra"], "roles": e["roles"], "licenses": e["licenses"]}, [], root, set()


def cases(tier, seed):
    for name in EXTRAS:
        yield {"mode": "formats", "extra": name, "defects": []}
        yield {"mode": "lintfile", "extra": name, "defects": []}
    nf = 2 if tier == "quick" else 3
    nl = 1 if tier == "quick" else 2
    for b in range(len(projects.BASES)):
        for git in (False, True):
            for ds in projects.defect_sets(nf):
                yield {"mode": "formats", "base": b, "git": git, "defects": ds}
    for b in range(len(projects.BASES)):
        for ds in projects.defect_sets(nl):
            yield {"mode": "lintfile", "base": b, "git": bool(not ds and b % 2), "defects": ds}


def _rel(p, root):
    pre = str(root).rstrip("/") + "/"
    return p[len(pre):] if p.startswith(pre) else p


def from_json(data, root):
    nc = data["non_compliant"]
    return {
        "bad": {(k, _rel(f, root)) for k, v in nc["bad_licenses"].items() for f in v},
        "deprecated": set(nc["deprecated_licenses"]),
        "noext": set(nc["licenses_without_extension"]),
        "missing": {(k, _rel(f, root)) for k, v in nc["missing_licenses"].items() for f in v},
        "unused": set(nc["unused_licenses"]),
        "read": {_rel(f, root) for f in nc["read_errors"]},
        "no_c": {_rel(f, root) for f in nc["missing_copyright_info"]},
        "no_l": {_rel(f, root) for f in nc["missing_licensing_info"]},
    }


def from_plain(text, root):
    out = {k: set() for k in ("bad", "deprecated", "noext", "missing", "unused", "read", "no_c", "no_l")}
    section = None
    sub = None
    cur = None
    summary = {}
    for line in text.split("\n"):
        if line.startswith("# "):
            section = line[2:].strip()
            sub = cur = None
            continue
        if section in ("BAD LICENSES", "MISSING LICENSES"):
            m = re.match(r"^'(.*)' found in:$", line)
            if m:
                cur = m.group(1)
            elif line.startswith("* ") and cur is not None:
                out["bad" if section.startswith("BAD") else "missing"].add((cur, _rel(line[2:], root)))
        elif section == "DEPRECATED LICENSES" and line.startswith("* "):
            out["deprecated"].add(line[2:])
        elif section == "LICENSES WITHOUT FILE EXTENSION" and line.startswith("* "):
            out["noext"].add(line[2:])
        elif section == "UNUSED LICENSES" and line.startswith("* "):
            out["unused"].add(line[2:])
        elif section == "READ ERRORS" and line.startswith("* "):
            out["read"].add(_rel(line[2:], root))
        elif section == "MISSING COPYRIGHT AND LICENSING INFORMATION":
            if line.startswith("The following files have no copyright and licensing"):
                sub = "both"
            elif line.startswith("The following files have no copyright information"):
                sub = "c"
            elif line.startswith("The following files have no licensing information"):
                sub = "l"
            elif line.startswith("* "):
                p = _rel(line[2:], root)
                if sub in ("both", "c"):
                    out["no_c"].add(p)
                if sub in ("both", "l"):
                    out["no_l"].add(p)
        elif section == "SUMMARY":
            m = re.match(r"^\* (.*?): ?(.*)$", line)
            if m:
                summary[m.group(1)] = m.group(2)
            elif "Congratulations" in line:
                summary["verdict"] = True
            elif "Unfortunately" in line:
                summary["verdict"] = False
    return out, summary


_LINE_KINDS = [
    (re.compile(r"^(.*): bad license (\S+)$"), "bad"), (re.compile(r"^(.*): missing license (\S+)$"), "missing"),
    (re.compile(r"^(.*): deprecated license$"), "deprecated"), (re.compile(r"^(.*): license without file extension$"), "noext"),
    (re.compile(r"^(.*): unused license$"), "unused"), (re.compile(r"^(.*): read error$"), "read"),
    (re.compile(r"^(.*): no license identifier$"), "no_l"), (re.compile(r"^(.*): no copyright notice$"), "no_c"),
]


def from_lines(text, root, base=None):
    out = {k: set() for k in ("bad", "deprecated", "noext", "missing", "unused", "read", "no_c", "no_l")}
    junk = []
    for line in text.split("\n"):
        if not line:
            continue
        for rx, kind in _LINE_KINDS:
            m = rx.match(line)
            if m:
                p = m.group(1)
                if base is not None and not os.path.isabs(p):
                    p = os.path.normpath(os.path.join(base, p))
                p = _rel(p, root)
                if kind in ("bad", "missing"):
                    out[kind].add((m.group(2), p))
                elif kind in ("deprecated", "noext", "unused"):
                    out[kind].add(inv.file_identifier(p)[0])
                else:
                    out[kind].add(p)
                break
        else:
            junk.append(line)
    return out, junk


def ev_formats(case) -> R:
    r = R()
    proj, unreadable, root, bad = build13(case, "c13")
    label = "+".join(case["defects"]) or "none"
    res = {}
    for fmt in ("--json", "--plain", "--lines", "--quiet", None):
        plan = FaultPlan(lambda p: p in bad)
        argv = ["--root", str(root), "--no-multiprocessing", "lint"] + ([fmt] if fmt else [])
        with faulty_open(plan):
            res[fmt] = run_cli(argv)
        if res[fmt].exc or res[fmt].exit_code not in (0, 1):
            r.violation(f"format-crashed|{fmt}", f"lint {fmt} on base {proj['name']} [{label}]: {res[fmt].brief()}")
            return r
    r.evals = 5
    data = json.loads(res["--json"].stdout)
    j = from_json(data, root)
    p, summary = from_plain(res["--plain"].stdout, root)
    l, junk = from_lines(res["--lines"].stdout, root)
    codes = {str(k): v.exit_code for k, v in res.items()}
    if len(set(codes.values())) != 1:
        r.violation(f"exit-status-differs|{label}", f"base {proj['name']} [{label}]: exit statuses {codes}")
    if res["--quiet"].stdout != "":
        r.violation("quiet-prints", f"--quiet printed {res['--quiet'].stdout[:200]!r}")
    dp, dsum = from_plain(res[None].stdout, root)
    if dp != p or {k: (set(v.split(", ")) if isinstance(v, str) else v) for k, v in dsum.items()} != \
            {k: (set(v.split(", ")) if isinstance(v, str) else v) for k, v in summary.items()}:
        r.violation("default-is-not-plain", "output without format option differs in content from --plain")
    if junk:
        r.violation(f"lines-unparseable|{label}", f"--lines printed lines of unknown form: {junk[:3]!r}")
    for cat in j:
        if p[cat] != j[cat]:
            r.violation(f"plain-vs-json|{cat}", f"base {proj['name']} [{label}]: --plain gives {cat}={sorted(p[cat])!r}, --json gives {sorted(j[cat])!r}")
        if l[cat] != j[cat]:
            r.violation(f"lines-vs-json|{cat}", f"base {proj['name']} [{label}]: --lines gives {cat}={sorted(l[cat])!r}, --json gives {sorted(j[cat])!r}")
    any_issue = any(j.values())
    ec = res["--json"].exit_code
    if (ec == 1) != any_issue:
        r.violation(f"exit-vs-json|{label}", f"exit status {ec} but JSON categories {'non-empty' if any_issue else 'all empty'}")
    s = data["summary"]
    n = len(data["files"])
    want = {"files_total": n, "files_with_copyright_info": n - len(data["non_compliant"]["missing_copyright_info"]),
            "files_with_licensing_info": n - len(data["non_compliant"]["missing_licensing_info"]), "compliant": not any_issue}
    for k, v in want.items():
        if s.get(k) != v:
            r.violation(f"json-summary|{k}", f"base {proj['name']} [{label}]: summary.{k}={s.get(k)!r} but the JSON's own lists give {v!r}")
    if len(data["files"]) != len({f["path"] for f in data["files"]}):
        r.violation("json-files-duplicated", "files[] holds a path twice")
    # plain summary numbers vs JSON
    if summary.get("verdict") != (ec == 0):
        r.violation("plain-verdict", f"--plain verdict sentence {summary.get('verdict')} with exit status {ec}")
    pc = summary.get("Files with copyright information", "")
    pl = summary.get("Files with license information", "")
    if pc != f"{want['files_with_copyright_info']} / {n}" or pl != f"{want['files_with_licensing_info']} / {n}":
        r.violation("plain-summary-counts", f"--plain summary says copyright {pc!r} licence {pl!r}; JSON lists give {want}")
    def lst(key):
        v = summary.get(key, "0")
        return set() if v == "0" else set(v.split(", "))

    for key, want_set in (("Bad licenses", {k for k, _f in j["bad"]}), ("Deprecated licenses", j["deprecated"]), ("Licenses without file extension", j["noext"]),
                          ("Missing licenses", {k for k, _f in j["missing"]}), ("Unused licenses", j["unused"]), ("Used licenses", set(data["summary"]["used_licenses"]))):
        if lst(key) != want_set:
            r.violation(f"plain-summary-list|{key}", f"base {proj['name']} [{label}]: --plain summary '{key}' lists {sorted(lst(key))}, JSON has {sorted(want_set)}")
    if summary.get("Read errors") != str(len(j["read"])):
        r.violation("plain-summary-read-errors", f"--plain says Read errors: {summary.get('Read errors')!r}, JSON has {len(j['read'])}")
    r.outcome = "|".join(k for k, v in j.items() if v) or "compliant"
    r.nontrivial = any_issue
    r.tags.append("formats")
    return r


def ev_lintfile(case) -> R:
    r = R()
    proj, unreadable, root, bad = build13(case, "c13")
    label = "+".join(case["defects"]) or "none"
    roles = proj["roles"]
    plan = FaultPlan(lambda p: p in bad)
    with faulty_open(plan):
        full = run_cli(["--root", str(root), "--no-multiprocessing", "lint", "--json"])
    data = json.loads(full.stdout)
    j = from_json(data, root)
    covered = {f["path"] for f in data["files"]} | j["read"]
    some_dir = os.path.dirname(roles["g"]) or os.path.dirname(roles["h"]) or "docs"
    # a symbolic link to the (possibly defective) covered file: the link itself is no covered file, and its target is not among the arguments
    alias = "alias to f.py"
    os.symlink(os.path.basename(roles["f"]) if os.path.dirname(roles["f"]) == "" else roles["f"], root / alias)
    menu = [roles["h"], roles["f"], alias if case.get("base", 0) % 2 == 0 else "LICENSE", some_dir, sorted(p for p in proj["licenses"])[0]]
    if "d1-unreadable" in case["defects"]:
        menu[0] = roles["k"]
    if any(d.startswith("b") for d in case["defects"]):
        menu[0] = roles["g"]
    subdir = "docs"
    r.evals = 0
    r.validated = 0
    for k in range(len(menu) + 1):
        for F in itertools.combinations(menu, k):
            want = {"missing": {(lic, f) for lic, f in j["missing"] if f in F}, "read": {f for f in j["read"] if f in F},
                    "no_l": {f for f in j["no_l"] if f in F}, "no_c": {f for f in j["no_c"] if f in F}}
            for spelling in ("root", "subdir", "abs", "dotdot"):
                if spelling == "root":
                    cwd, args = str(root), list(F)
                elif spelling == "subdir":
                    cwd, args = str(root / subdir), [os.path.join("..", f) for f in F]
                elif spelling == "abs":
                    cwd, args = "/", [str(root / f) for f in F]
                else:
                    cwd, args = str(root), [os.path.join(subdir, "..", f) for f in F]
                argv = ["--no-multiprocessing", "lint-file"] + args
                if spelling in ("abs", "subdir"):
                    argv = ["--root", str(root)] + argv
                plan = FaultPlan(lambda p: p in bad)
                with faulty_open(plan):
                    out = run_cli(argv, cwd=cwd)
                r.evals += 1
                if out.exc or out.exit_code not in (0, 1):
                    r.violation(f"lint-file-crashed|{spelling}", f"lint-file {args} (cwd {cwd}): {out.brief()}")
                    continue
                got, junk = from_lines(out.stdout, root, base=cwd)
                got = {k: got[k] for k in want}
                extra = {k: v for k, v in from_lines(out.stdout, root, base=cwd)[0].items() if k not in want and v}
                r.validated += 1
                if got != want or junk or extra:
                    r.violation(f"lint-file-differs|{spelling}",
                                f"base {proj['name']} [{label}] lint-file {args} (cwd={_rel(cwd, root) or '.'}): reports {got} {junk} {extra}; lint reports for these files {want}")
                if (out.exit_code == 1) != any(want.values()):
                    r.violation(f"lint-file-exit|{spelling}", f"lint-file {args}: exit {out.exit_code} but expected problems {want}")
    r.outcome = "lintfile:" + ("|".join(k for k in ("missing", "read", "no_l", "no_c") if j[k]) or "clean")
    r.nontrivial = any(j[k] for k in ("missing", "read", "no_l", "no_c"))
    r.transitions = r.evals
    r.tags.append("lintfile")
    return r


def evaluate(case) -> R:
    return ev_formats(case) if case["mode"] == "formats" else ev_lintfile(case)


def vacuity(st):
    if not st.tags.get("formats") or not st.tags.get("lintfile"):
        return "a slice did not run"
    if len(st.outcomes) < 10:
        return f"only {len(st.outcomes)} outcome classes"
    return None


def run(tier, seed):
    t0 = time.time()
    st = explore(MODULE, tier, seed)
    return finish(
        ID, "model_checking", MODULE, tier, seed, st, t0,
        rule=("the C01 defect lattice (7 bases x git x defect sets): lint --json/--plain/--lines/--quiet/default reduced to category sets and "
              "compared; summary counters vs the JSON's own lists; then for defect sets up to the lint-file bound every subset of a 5-path menu "
              "(compliant file, defective file, non-covered file, directory, LICENSES/ file) x 4 spellings through lint-file; "
              "non-trivial = lint reports something"),
        bounds=bounds(tier, seed),
        assumptions=["messages are compared in the C locale (no translation catalogue)",
                     "file names contain spaces and non-ASCII characters but no newline"],
        vacuity=vacuity,
    )
