"""C15 — commands touch only what they are documented to touch.

E2: breadth-first search over sequences of command lines (22-entry menu
covering every subcommand) from 5 initial trees; a state is the content +
metadata snapshot of the project and of a sentinel directory outside it;
states are de-duplicated on content.  Invariant per transition: read-only
commands change nothing (mtime and mode included); annotate touches only the
named files / covered files below named directories or their .license
siblings; convert-dep5 only swaps .reuse/dep5 for REUSE.toml; download only
adds files under LICENSES/ or at --output.
"""
from __future__ import annotations

import json
import os
import time

from .. import gitrepo
from ..cli import run_cli
from ..core import HarnessError, R, Stats, canon, finish, fresh_dir, h64, pmap
from ..envctl import stub_net, virtual_pool
from ..fstree import materialise, snapshot
from ..lintutil import PNG_HEX
from ..refmodel.covered import covered

ID = "C15"
MODULE = "mc.checks.c15"
H = "# SPDX-FileCopyrightText: 2020 Jane\n# SPDX-License-Identifier: MIT\n"
DEP5 = ("Format: https://www.debian.org/doc/packaging-manuals/copyright-format/1.0/\nUpstream-Name: x\n\n"
        "Files: *\nCopyright: 2001 All\nLicense: MIT\n")

OUTSIDE = {"outside/secret.txt": "outside secret, never touch\n", "outside/dir/inner.py": "print('outside')\n", "outside/src/decoy.py": "decoy = 1\n"}


def initial_trees():
    t = {}
    t["plain"] = {"vendor/LICENSES/README": "licence texts of bundled third-party code (a directory that merely shares the name)\n",
                  "src/a.py": H + "a = 1\n", "src/sub/b.c": "int b;\n", "README.md": "readme\n", "LICENSES/MIT.txt": "mit\n", "docs/notes.txt": "notes\n",
                  "src-old/c.py": "c = 1\n", "srcfile.py": "d = 1\n", "empty.txt": {"empty": True}, "img.png": {"hex": PNG_HEX},
                  "LICENSES/LicenseRef-x.txt": "the project's own custom licence\n", "vendor-texts/LicenseRef-x.txt": "a different text\n",
                  "vendor-texts/LicenseRef-y.txt": "text y\n", "legacy1.c": {"latin1": "/* J\xfcrgen */\nint a;\n"}, "old/legacy2.c": {"latin1": "/* caf\xe9 */\n"},
                  "old/legacy3.py": {"latin1": "# na\xefve\n"}, "zz_legacy4.c": {"latin1": "/* \xe5 */\n"}, "old/pic.png": {"hex": PNG_HEX},
                  # unrelated files whose names look like scratch / backup names of files that get annotated
                  "src/a.py.tmp": "unrelated scratch file\n", "src/a.py~": "editor backup\n", "src/sub/b.c.license.tmp": "unrelated\n", "img.png.license.tmp": "unrelated\n",
                  "src/a.py.bak": "backup\n", "src/.a.py.swp": "swap\n"}
    t["git"] = {"src/a.py": H + "a = 1\n", "src/sub/b.c": "int b;\n", "build/out.log": "ignored\n", "untracked.py": "u = 1\n", ".gitignore": "*.log\nbuild/\n",
                "src/debug.log": "ignored too\n", "LICENSES/MIT.txt": "mit\n", "@git": ["src/a.py", "src/sub/b.c", ".gitignore", "LICENSES/MIT.txt"]}
    # the project root is a sub-directory of a larger Git work tree
    t["git-subdir-root"] = {"src/a.py": H + "a = 1\n", "src/sub/b.c": "int b;\n", "build/out.log": "ignored\n", "src/debug.log": "ignored too\n", "untracked.py": "u = 1\n",
                            ".gitignore": "*.log\nbuild/\n", "LICENSES/MIT.txt": "mit\n", "@gitparent": ["proj/src/a.py", "proj/src/sub/b.c", "proj/.gitignore", "proj/LICENSES/MIT.txt"]}
    t["symlinks"] = {"src/a.py": H + "a = 1\n", "src/sub/b.c": "int b;\n", "LICENSES/MIT.txt": "mit\n",
                     "link-in.py": {"symlink": "src/a.py"}, "link-out.py": {"symlink": "../outside/secret.txt"}, "link-dir": {"symlink": "../outside/dir"},
                     "src/link-up": {"symlink": "../../outside"}, "dangling": {"symlink": "nowhere"},
                     # .license siblings that are symbolic links: to a file outside, to a not yet existing file outside, to a shared file inside
                     "src/sub/b.c.license": {"symlink": "../../../outside/secret.txt"}, "img.png": {"hex": PNG_HEX}, "img.png.license": {"symlink": "../outside/created-through-link.txt"},
                     "src/c.py": "c = 1\n", "src/c.py.license": {"symlink": "../shared.license"}, "shared.license": "SPDX-FileCopyrightText: 2001 Shared\nSPDX-License-Identifier: MIT\n",
                     # a licence text that is a dangling link to the outside, and the output path of `download -o` likewise
                     "LICENSES/0BSD.txt": {"symlink": "../../outside/licence-through-link.txt"}, "third-party/L.txt": {"symlink": "../../outside/output-through-link.txt"}}
    t["dep5"] = {".reuse/dep5": DEP5, "src/a.py": "a = 1\n", "src/sub/b.c": "int b;\n", "LICENSES/MIT.txt": "mit\n", ".reuse/templates/x.jinja2": "{{ x }}\n"}
    t["readonly"] = {"src/a.py": {"text": H + "a = 1\n", "mode": 0o444}, "src/sub/b.c": {"text": "int b;\n", "mode": 0o444}, "src/c.py": H.replace("MIT", "0BSD") + "c = 1\n",
                     "LICENSES/README": {"text": "licences live here\n", "mode": 0o444}, "LICENSE": "top-level licence\n", "x.py.license": "SPDX-License-Identifier: MIT\n"}
    return t


TREES = initial_trees()
ANN = ["--copyright", "Zed", "--year", "2020"]
MENU = {
    "lint": (["--no-multiprocessing", "lint"], "."), "lint-json": (["--no-multiprocessing", "lint", "--json"], "."),
    "lint-lines": (["--no-multiprocessing", "lint", "--lines"], "."), "lint-quiet": (["--no-multiprocessing", "lint", "--quiet"], "."),
    "lint-mp": (["lint", "--quiet"], "."),
    "lint-file": (["--no-multiprocessing", "lint-file", "src/a.py", "src/sub/b.c"], "."), "lint-from-src": (["--no-multiprocessing", "lint"], "src"),
    "spdx": (["--no-multiprocessing", "spdx"], "."), "spdx-o": (["--no-multiprocessing", "spdx", "-o", "bom.spdx"], "."),
    "supported-licenses": (["supported-licenses"], "."), "help": (["--help"], "."), "version": (["--version"], "."), "annotate-help": (["annotate", "--help"], "."),
    "annotate-file": (["annotate", *ANN, "src/a.py"], "."), "annotate-r-root": (["annotate", *ANN, "-r", "."], "."),
    "annotate-r-src": (["annotate", *ANN, "--skip-unrecognised", "-r", "src"], "."), "annotate-dot-license": (["annotate", *ANN, "--force-dot-license", "src/sub/b.c"], "."),
    "annotate-r-fallback": (["annotate", "--license", "MIT", "--fallback-dot-license", "-r", "."], "."),
    "annotate-r-from-src": (["annotate", *ANN, "--skip-unrecognised", "-r", "."], "src"),
    "convert-dep5": (["convert-dep5"], "."),
    "convert-dep5-from-src": (["--root", "..", "convert-dep5"], "src"),
    "download-source-existing": (["download", "--source", "vendor-texts", "LicenseRef-x"], "."),
    "download-source-new": (["download", "--source", "vendor-texts/LicenseRef-y.txt", "LicenseRef-y"], "."),
    "download-existing": (["download", "MIT"], "."),
    # the working directory is *a* directory called LICENSES, but not the project's
    "download-from-foreign-licenses-dir": (["--root", "../..", "download", "ISC"], "vendor/LICENSES"),
    # 'identifiers' that are really paths (a typo, a hostile SPDX-License-Identifier picked up by --all)
    "download-path-as-identifier": (["download", "../../outside/newdir/MIT"], "."),
    "download-subdir-as-identifier": (["download", "GPL-3.0/or-later"], "."),
    "download": (["download", "0BSD"], "."), "download-all": (["download", "--all"], "."), "download-o": (["download", "-o", "third-party/L.txt", "ISC"], "."),
}
READONLY = {"lint", "lint-json", "lint-lines", "lint-quiet", "lint-mp", "lint-file", "lint-from-src", "spdx", "supported-licenses", "help", "version", "annotate-help"}


def build(recipe, base):
    root = base / "proj"
    rec = {k: v for k, v in recipe.items() if not k.startswith("@")}
    materialise(root, rec)
    materialise(base, OUTSIDE)
    if "@git" in recipe:
        gitrepo.git(root, "init", "-q")
        gitrepo.git(root, "add", "-f", "--", *[p for p in recipe["@git"] if (root / p).exists()])
    if "@gitparent" in recipe:
        (base / ".gitignore").write_text("outside/\n")
        gitrepo.git(base, "init", "-q")
        gitrepo.git(base, "add", "-f", "--", ".gitignore", *[p for p in recipe["@gitparent"] if (base / p).exists()])
    return base, root


def tree_to_recipe(root, old):
    rec = {}
    for dirpath, dirnames, filenames in os.walk(root, followlinks=False):
        if ".git" in dirnames and dirpath == str(root):
            dirnames.remove(".git")
        for n in dirnames:
            p = os.path.join(dirpath, n)
            rel = os.path.relpath(p, root)
            if os.path.islink(p):
                rec[rel] = {"symlink": os.readlink(p)}
            elif not os.listdir(p):
                rec[rel] = {"dir": True}
        for n in filenames:
            p = os.path.join(dirpath, n)
            rel = os.path.relpath(p, root)
            if os.path.islink(p):
                rec[rel] = {"symlink": os.readlink(p)}
            else:
                with open(p, "rb") as fp:
                    data = fp.read()
                mode = os.stat(p).st_mode & 0o777
                spec = {"latin1": data.decode("latin-1")} if data else {"empty": True}
                if mode != 0o644:
                    spec["mode"] = mode
                rec[rel] = spec
    for k in ("@git", "@gitparent"):
        if k in old:
            rec[k] = old[k]
    return rec


def snap(base):
    s = snapshot(base)
    return {k: v for k, v in s.items() if not (k == "proj/.git" or k.startswith("proj/.git/") or k == ".git" or k.startswith(".git/") or k == ".gitignore")}


def covered_under(root, directory, git):
    """Covered files (C03 model + Git's own ignore answer) below *directory*."""
    kinds = {}
    for dirpath, dirnames, filenames in os.walk(root, followlinks=False):
        for n in dirnames + filenames:
            p = os.path.join(dirpath, n)
            rel = os.path.relpath(p, root)
            kinds[rel] = "symlink" if os.path.islink(p) else ("dir" if os.path.isdir(p) else ("empty" if os.path.getsize(p) == 0 else "file"))
    out, unspec = set(), set()
    d = os.path.normpath(directory)
    for rel, k in kinds.items():
        if k == "dir" or rel.startswith(".git/"):
            continue
        if d != "." and not rel.startswith(d + "/"):
            continue
        parts = rel.split("/")
        c = covered(parts, [kinds["/".join(parts[: i + 1])] for i in range(len(parts))])
        if c is None:
            unspec.add(rel)
        elif c:
            out.add(rel)
    if git:
        tracked = set(gitrepo.git(root, "ls-files", "-z").stdout.split("\0"))
        for rel in list(out):
            if rel not in tracked and gitrepo.git(root, "check-ignore", "-q", "--", rel, check=False).returncode == 0:
                out.discard(rel)
    return out, unspec


def step(recipe, cmd):
    from ..core import case_dir

    with case_dir([recipe, cmd], "c15") as base:
        return _step(recipe, cmd, base)


def _step(recipe, cmd, base):
    base, root = build(recipe, base)
    argv, cwd = MENU[cmd]
    git = "@git" in recipe or "@gitparent" in recipe
    allowed_dirs = ()
    if cmd.startswith("annotate-r") or cmd == "annotate-file" or cmd == "annotate-dot-license":
        pass
    cov_all, unspec = (set(), set())
    if cmd.startswith("annotate-r"):
        target = {"annotate-r-root": ".", "annotate-r-src": "src", "annotate-r-fallback": ".", "annotate-r-from-src": "src"}[cmd]
        cov_all, unspec = covered_under(root, target, git)
    before = snap(base)
    cwd_abs = root / cwd
    if not cwd_abs.is_dir():
        return recipe, [], "n/a-no-cwd"
    if "@gitparent" in recipe and "--root" not in argv and argv[0] not in ("--help", "--version"):
        # without --root the Git top level (the parent directory) would be the project; name the sub-directory explicitly
        argv = ["--root", str(root), *argv]
    with stub_net(lambda ident: ("ok", f"text of {ident}\n".encode())), virtual_pool({"chunksize": 3}):
        out = run_cli(argv, cwd=str(cwd_abs))
    after = snap(base)
    viols = []
    label = f"`reuse {' '.join(argv)}` (cwd {cwd})"
    if out.exc:
        viols.append((f"crash|{cmd}|{out.exc}", f"{label}: unhandled {out.exc_repr}"))
    created = sorted(set(after) - set(before))
    removed = sorted(set(before) - set(after))
    changed = sorted(k for k in set(after) & set(before) if after[k] != before[k])
    content_changed = sorted(k for k in changed if (after[k][0], after[k][4]) != (before[k][0], before[k][4]))
    outside = [k for k in created + removed + changed if not k.startswith("proj/") and k != "proj"]
    if outside:
        viols.append((f"outside-project-touched|{cmd}", f"{label}: touched outside the project: {outside}"))

    def inside(ks):
        return [k[len("proj/"):] for k in ks if k.startswith("proj/")]

    cr, rm, ch, cch = inside(created), inside(removed), inside(changed), inside(content_changed)
    dirs_ok = lambda p: after.get("proj/" + p, ("",))[0] == "d"
    if cmd in READONLY:
        if cr or rm or ch:
            viols.append((f"read-only-command-modified-tree|{cmd}", f"{label}: created {cr} removed {rm} changed {ch} (content, mode or mtime)"))
    elif cmd == "spdx-o":
        bad = [p for p in cr + ch if p != "bom.spdx"] + rm
        if bad:
            viols.append((f"spdx-o-touched-other|{cmd}", f"{label}: besides bom.spdx: created {cr} changed {ch} removed {rm}"))
    elif cmd.startswith("annotate"):
        if cmd == "annotate-file":
            allowed = {"src/a.py", "src/a.py.license"}
        elif cmd == "annotate-dot-license":
            allowed = {"src/sub/b.c.license"}
        else:
            allowed = set()
            for f in cov_all | unspec:
                allowed.add(f)
                allowed.add(f + ".license")
        bad = [p for p in cr + ch if p not in allowed and not dirs_ok(p)] + [p for p in cr if dirs_ok(p)]
        if rm:
            viols.append((f"annotate-removed|{cmd}", f"{label}: removed {rm}"))
        if bad:
            why = []
            for p in bad:
                link = any(before.get("proj/" + "/".join(p.split("/")[:i]), ("",))[0] == "l" for i in range(1, len(p.split("/")) + 1))
                why.append(f"{p}{' (via symlink)' if link else ''}")
            viols.append((f"annotate-touched-unrelated|{cmd}", f"{label}: touched {why}; allowed only {sorted(allowed)[:12]}"))
    elif cmd.startswith("convert-dep5"):
        has = "proj/.reuse/dep5" in before
        if has and out.exit_code == 0:
            if rm != [".reuse/dep5"] or cr != ["REUSE.toml"] or cch:
                viols.append((f"convert-dep5-touched-other|{cmd}", f"{label}: removed {rm} created {cr} changed {cch}"))
        elif cr or rm or cch:
            viols.append((f"convert-dep5-refused-but-touched|{cmd}", f"{label}: exit {out.exit_code}, removed {rm} created {cr} changed {cch}"))
        elif not has and out.exit_code != 2:
            viols.append((f"convert-dep5-no-dep5-exit|{cmd}", f"{label}: no dep5 file but exit {out.exit_code}"))
    elif cmd.startswith("download"):
        ok = lambda p: (p.startswith("LICENSES/") and p.endswith(".txt")) or p == "third-party/L.txt" or p in ("LICENSES", "third-party")
        bad = [p for p in cr if not ok(p)] + [p for p in cch if not dirs_ok(p)] + rm
        if bad:
            viols.append((f"download-touched-other|{cmd}", f"{label}: created {cr} changed {cch} removed {rm}"))
    new_recipe = tree_to_recipe(root, recipe)
    return new_recipe, viols, f"exit{min(out.exit_code, 2)}"


def evaluate(case) -> R:
    r = R()
    recipe = TREES[case["tree"]]
    r.transitions = 0
    for cmd in case["history"]:
        recipe, viols, outcome = step(recipe, cmd)
        r.transitions += 1
        r.outcome = outcome
        for sig, msg in viols:
            r.violation(sig, f"tree {case['tree']}, history {case['history']}: {msg}")
        if viols:
            break
    return r


def _expand(task):
    tree, hist, recipe, cmd = task
    try:
        return step(recipe, cmd)
    except HarnessError as e:
        return ("harness", str(e))


def key_of(recipe):
    return h64(canon({k: v for k, v in recipe.items()}))


def bounds(tier, seed):
    return {"menu": list(MENU), "initial_trees": list(TREES), "depth": 2 if tier == "quick" else 4, "dedup": "content of project tree"}


def run(tier, seed):
    t0 = time.time()
    depth = 2 if tier == "quick" else 4
    st = Stats()
    cmds = list(MENU)
    merged = 0
    for tree, recipe0 in TREES.items():
        seen = {key_of(recipe0)}
        st.state_hashes.add(h64([tree, key_of(recipe0)]))
        frontier = [([], recipe0)]
        for d in range(depth):
            tasks = [(tree, hist, rec, c) for hist, rec in frontier for c in cmds]
            results = pmap(_expand, tasks, chunksize=4)
            nxt = []
            for task, res in zip(tasks, results):
                hist = task[1] + [task[3]]
                st.transitions += 1
                st.cases += 1
                st.evaluations += 1
                if res[0] == "harness":
                    st.harness_errors.append(res[1])
                    continue
                new_recipe, viols, outcome = res
                st.validated += 1
                st.outcomes[outcome] += 1
                st.tags[task[3]] += 1
                case = {"tree": tree, "history": hist}
                for sig, msg in viols:
                    st.viol_count += 1
                    st.viol_by_sig[sig] += 1
                    st._keep({"signature": sig, "message": f"tree {tree}, history {hist}: {msg}", "case": case})
                if len(st.samples) < 4 and len(hist) == depth:
                    st.samples.append(case)
                if viols:
                    continue
                k = key_of(new_recipe)
                if k in seen:
                    merged += 1
                    continue
                seen.add(k)
                st.state_hashes.add(h64([tree, k]))
                st.nontrivial_hashes.add(h64([tree, k]))
                nxt.append((hist, new_recipe))
            frontier = nxt
    st.extra["merged_paths"] = merged

    def vac(s):
        if s.outcomes.get("exit0", 0) < 50:
            return f"outcomes {dict(s.outcomes)}"
        if len(s.state_hashes) < 20:
            return "fewer than 20 distinct states"
        return None

    return finish(
        ID, "model_checking", MODULE, tier, seed, st, t0,
        rule=("BFS over sequences of 23 command lines (every subcommand; two working directories) up to the depth bound from 5 initial trees (plain, Git with "
              "ignored/untracked files, symlinks pointing outside, dep5, read-only files); states de-duplicated on project content; per-transition snapshot "
              "invariant on the project and on a sentinel directory outside it; non-trivial = a state that differs from its predecessor"),
        bounds=bounds(tier, seed),
        assumptions=["the .git directory itself is not compared (git may refresh its index when asked for status)",
                     "an explicitly named symlink argument to annotate is unspecified and not in the menu",
                     "the network is a local stub; multiprocessing runs on the virtual pool"],
        vacuity=vac,
    )
