"""C17 — convert-dep5 produces an equivalent REUSE.toml.

E4 + E1 + E3: (i) every dep5 wildcard pattern over {a . / * ? \\} up to a
bounded length: the automaton of python-debian's matcher and the automaton of
the matcher obtained through the real pipeline (toml_from_dep5 ->
ReuseTOML.from_toml) are compared as languages by complete product exploration
(paths of any length); (ii) every sequence of up to 3 Files paragraphs from a
12-entry menu plus a field-variant product: `reuse lint --json` before and
after the real `reuse convert-dep5` must agree; (iii) the write / unlink order
under injected faults and the refusal without a dep5 file.
"""
from __future__ import annotations

import itertools
import json
import os
import re
import sys
import time

from .. import automata as au
from ..cli import run_cli
from ..core import HarnessError, HarnessGap, R, explore, finish, fresh_dir
from ..envctl import FaultPlan, faulty_open
from ..fstree import materialise, read_tree
from .c05 import RealPath, included_real

ID = "C17"
MODULE = "mc.checks.c17"
SIGMA = ["a", ".", "/", "*", "?", "\\"]
HEAD = "Format: https://www.debian.org/doc/packaging-manuals/copyright-format/1.0/\n"
HDR = "# SPDX-FileCopyrightText: 2000 Own\n# SPDX-License-Identifier: 0BSD\n"
PATHS = {"a.py": "x\n", "README": "r\n", "src/a.py": "x\n", "src/b.c": "x\n", "src/vendor/v.py": "x\n", "src/vendor/deep/w.c": "x\n", "docs/d.md": "x\n",
         "docs/x/y.txt": "x\n", "src/h.py": HDR + "x\n", "h2.py": HDR.replace("0BSD", "ISC") + "x\n", "src/q?.py": "x\n", "s*r.txt": "x\n"}
PARA_PATTERNS = [["*"], ["src/*"], ["src/vendor/*"], ["*.py"], ["src/*", "docs/*"], ["src/a.py"]]
INFOS = [("2001 Jane", "MIT"), ("2002 John", "GPL-2.0-or-later")]


def dep5_ok(pat):
    from debian.copyright import globs_to_re

    try:
        globs_to_re([pat])
        return True
    except Exception:
        return False


def patterns(maxlen):
    for n in range(1, maxlen + 1):
        for tup in itertools.product(SIGMA, repeat=n):
            p = "".join(tup)
            if dep5_ok(p):
                yield p


def bounds(tier, seed):
    return {"pattern_alphabet": SIGMA, "max_pattern_len": 4 if tier == "quick" else 7, "paragraph_menu": 12, "paragraph_sequences": 3,
            "field_variants": 72, "paths_in_tree": len(PATHS), "fault_points": ["open(REUSE.toml, 'w')", "REUSE.toml is a directory", "REUSE.toml is a dangling symlink", "unlink(dep5)"]}


def cases(tier, seed):
    L = 4 if tier == "quick" else 7
    for p in patterns(L):
        yield {"k": "pat", "pats": [p]}
    short = list(patterns(2))
    for a, b in itertools.combinations(short, 2):
        yield {"k": "pat", "pats": [a, b]}
    if tier == "quick":
        first = SIGMA[seed % 6]
        for tup in itertools.product(SIGMA, repeat=L):
            p = first + "".join(tup)
            if dep5_ok(p):
                yield {"k": "pat", "pats": [p]}
    opts = [(pi, ii) for pi in range(len(PARA_PATTERNS)) for ii in range(len(INFOS))]
    for n in (1, 2, 3):
        for seq in itertools.product(opts, repeat=n):
            yield {"k": "paras", "seq": [list(x) for x in seq]}
    for cop in ("one", "three", "hostile", "continuation", "dot-separated", "trailing-blanks"):
        for lic in ("id", "compound", "with-text"):
            for hdr in (True, False):
                for comment in (True, False):
                    yield {"k": "fields", "cop": cop, "lic": lic, "hdr": hdr, "comment": comment}
    for f in ("write-fails", "toml-is-directory", "toml-is-dangling-symlink", "toml-is-symlink-to-file", "unlink-fails", "no-dep5", "toml-exists", "toml-is-fifo"):
        yield {"k": "fault", "fault": f}
    for holder in ("ascii", "latin", "cjk"):
        yield {"k": "locale", "holder": holder}
    for shape in UNCONVERTIBLE:
        for matches in (False, True):
            yield {"k": "unconvertible", "shape": shape, "matches": matches}


def dep5_text(paragraphs, header=True):
    out = HEAD + ("Upstream-Name: proj\nUpstream-Contact: Jane <jane@example.com>\nSource: https://example.com/proj\n" if header else "") + "\n"
    for pats, cop, lic, comment in paragraphs:
        out += "Files: " + " ".join(pats) + "\nCopyright: " + "\n ".join(cop) + f"\nLicense: {lic}\n"
        if comment:
            out += "Comment: some remark\n about this\n"
        out += "\n"
    return out


def lang_pair(pats):
    """(dep5 language, converted REUSE.toml language, matcher objects)"""
    from debian.copyright import Copyright
    from reuse.convert_dep5 import toml_from_dep5
    from reuse.global_licensing import ReuseTOML

    import io

    text = dep5_text([(pats, ["2001 J"], "MIT", False)])
    cop = Copyright(io.StringIO(text))
    para = list(cop.all_files_paragraphs())[0]
    rx = para.files_pattern()
    flags = rx.flags & ~(re.UNICODE | re.MULTILINE)
    if re.search(r"(?<!\\)[\^$]", rx.pattern):
        raise HarnessGap("python-debian pattern contains an anchor")
    n1 = au.from_regex(rx.pattern, flags)
    toml = ReuseTOML.from_toml(toml_from_dep5(cop), "REUSE.toml")
    item = toml.annotations[0]
    rx2 = item._paths_regex
    n2 = au.from_regex(rx2.pattern, rx2.flags & ~re.UNICODE)
    return para, item, n1, n2, sorted(item.paths)


def minimal_sub(p, direction):
    for ln in range(1, len(p)):
        for i in range(0, len(p) - ln + 1):
            sub = p[i:i + ln]
            if not dep5_ok(sub) or (i > 0 and not dep5_ok(p[:i])):
                continue
            try:
                para, item, n1, n2, _ = lang_pair([sub])
            except Exception:
                continue
            sigma = au.sigma_for(n1, n2, extra=SIGMA)
            A, B = au.Lang(n1, "fullmatch"), au.Lang(n2, "fullmatch")
            if not (all(B.accepts(w) == item.matches(w) for w in au.words(sigma, 2))):
                B = au.Lang(n2, "match")
            st = {"states": 0, "transitions": 0}
            w = included_real(A, B, sigma, st) if direction == "lost" else included_real(B, A, sigma, st)
            if w is not None:
                return sub
    return p


def classify(pats, direction):
    """Signature class of a language difference: the minimal failing
    sub-pattern of the (first) pattern that fails on its own; two recorded
    classes get a name."""
    for p in pats:
        try:
            para, item, n1, n2, _ = lang_pair([p])
        except Exception:
            continue
        sigma = au.sigma_for(n1, n2, extra=SIGMA)
        A, B = au.Lang(n1, "fullmatch"), au.Lang(n2, "fullmatch")
        st = {"states": 0, "transitions": 0}
        w = included_real(A, B, sigma, st) if direction == "lost" else included_real(B, A, sigma, st)
        if w is None:
            continue
        m = minimal_sub(p, direction)
        if m == "?" and direction == "lost":
            return "question-mark-has-no-equivalent"
        if direction == "gained" and m.startswith("*/"):
            # is the only difference that '**/' may stand for zero directories?
            pm, im, m1, m2, _ = lang_pair([m])
            sg = au.sigma_for(m1, m2, extra=SIGMA)
            wm = included_real(au.Lang(m2, "fullmatch"), au.Lang(m1, "fullmatch"), sg, {"states": 0, "transitions": 0})
            if wm is not None and pm.matches("d/" + wm) and im.matches("d/" + wm) and not pm.matches(wm):
                return "star-segment-matches-zero-directories"
        return m
    return "|".join(pats)


def ev_pat(c) -> R:
    r = R()
    pats = c["pats"]
    para, item, n1, n2, toml_paths = lang_pair(pats)
    sigma = au.sigma_for(n1, n2, extra=SIGMA)
    A = au.Lang(n1, "fullmatch")
    B = au.Lang(n2, "fullmatch")
    w = au.included(au.Lang(n2, "match"), B, sigma)
    if w is not None and item.matches(w):
        B = au.Lang(n2, "match")
    n = 0
    for word in au.words(sigma, 3):
        n += 1
        if A.accepts(word) != para.matches(word) or B.accepts(word) != item.matches(word):
            raise HarnessError(f"automaton/implementation divergence on {pats} path {word!r}")
    r.validated = n
    st = {"states": 0, "transitions": 0}
    for direction, X, Y in (("lost", A, B), ("gained", B, A)):
        wit = included_real(X, Y, sigma, st)
        if wit is None:
            continue
        if para.matches(wit) == item.matches(wit):
            raise HarnessError(f"counterexample {wit!r} for {pats} not confirmed by the real matchers")
        cls = classify(pats, direction)
        r.violation(f"pattern-{direction}:{cls}",
                    f"dep5 pattern {pats!r} is converted to REUSE.toml path {toml_paths!r}; path {wit!r} is matched by "
                    f"{'dep5 only' if direction == 'lost' else 'REUSE.toml only'}", witness=wit)
    r.counters = {"product_states": st["states"], "product_transitions": st["transitions"]}
    r.transitions = st["transitions"]
    r.outcome = "pat-equal" if not r.viol else "pat-differs"
    r.nontrivial = any(ch in p for p in pats for ch in "*?\\")
    r.tags.append("pat")
    return r


def lint_norm(root):
    out = run_cli(["--root", str(root), "--no-multiprocessing", "--suppress-deprecation", "lint", "--json"])
    if out.exc or out.exit_code not in (0, 1):
        raise HarnessError(f"lint failed: {out.brief()}")
    data = json.loads(out.stdout)

    def m(item):
        t = "reuse-toml" if item["source_type"] == "dep5" else item["source_type"]
        s = "REUSE.toml" if item["source"] == ".reuse/dep5" else item["source"]
        return (item["value"], s, t)

    files = {f["path"]: (sorted(m(x) for x in f["copyrights"]), sorted(m(x) for x in f["spdx_expressions"])) for f in data["files"]}
    nc = {k: (sorted(v) if isinstance(v, list) else {kk: sorted(vv) if isinstance(vv, list) else vv for kk, vv in v.items()}) for k, v in data["non_compliant"].items()}
    return files, nc, out.exit_code


def convert_and_compare(r: R, root, label, sig):
    before = lint_norm(root)
    out = run_cli(["--root", str(root), "convert-dep5"])
    if out.exc or out.exit_code != 0:
        r.violation(f"convert-failed|{sig}", f"{label}: convert-dep5: {out.brief()}")
        return
    tree = read_tree(root)
    if ".reuse/dep5" in tree or "REUSE.toml" not in tree:
        r.violation(f"convert-tree|{sig}", f"{label}: after convert-dep5 the tree has dep5={'.reuse/dep5' in tree} REUSE.toml={'REUSE.toml' in tree}")
        return
    after = lint_norm(root)
    if before[0] != after[0]:
        diff = sorted(p for p in set(before[0]) | set(after[0]) if before[0].get(p) != after[0].get(p))
        p = diff[0]
        r.violation(f"lint-differs|{sig}", f"{label}: {len(diff)} file(s) attributed differently after conversion, e.g. {p}: before {before[0].get(p)} after {after[0].get(p)}; "
                                           f"REUSE.toml:\n{tree['REUSE.toml'].decode()[:600]}")
    elif before[1] != after[1] or before[2] != after[2]:
        r.violation(f"lint-report-differs|{sig}", f"{label}: non_compliant / exit status changed: {before[1]} ({before[2]}) vs {after[1]} ({after[2]})")


def ev_paras(c) -> R:
    r = R()
    root = fresh_dir("c17")
    paras = [(PARA_PATTERNS[pi], [INFOS[ii][0]], INFOS[ii][1], False) for pi, ii in c["seq"]]
    rec = dict(PATHS)
    rec[".reuse/dep5"] = dep5_text(paras)
    rec["LICENSES/MIT.txt"] = "mit\n"
    materialise(root, rec)
    label = "dep5 paragraphs " + " ; ".join(f"{' '.join(p[0])} -> {p[1][0]}/{p[2]}" for p in paras)
    shape = "same-info-nonadjacent" if len(c["seq"]) == 3 and c["seq"][0][1] == c["seq"][2][1] != c["seq"][1][1] else f"n={len(c['seq'])}"
    convert_and_compare(r, root, label, f"paras|{shape}")
    r.outcome = "paras-ok" if not r.viol else "paras-diff"
    r.evals = 3
    r.nontrivial = len(c["seq"]) > 1
    r.tags.append("paras")
    return r


def ev_fields(c) -> R:
    r = R()
    root = fresh_dir("c17")
    cop = {"one": ["2001 Jane"], "three": ["2001 Jane", "2002-2004 John <john@example.com>", "Copyright (C) 2005 Acme, Inc."],
           "hostile": ["2001 \"Quoted\" Jane \\ backslash", "2002 Jürgen Müller 山田", "2003 Tab\there # hash"],
           # value starting on the continuation line; a lone '.' (deb822's empty line) between notices
           "continuation": ["", "2001 Jane", "2002 John"], "dot-separated": ["2001 Jane", ".", "2002 John", ".", "2003 Acme"],
           "trailing-blanks": ["2001 Jane  ", "2002 John \t", "  2003 Acme "]}[c["cop"]]
    lic = {"id": "MIT", "compound": "GPL-2.0-or-later AND (MIT OR 0BSD)", "with-text": "MIT\n Permission is hereby granted, free of charge\n .\n more text"}[c["lic"]]
    rec = dict(PATHS)
    rec[".reuse/dep5"] = dep5_text([(["*"], cop, lic, c["comment"]), (["src/*"], ["2010 Src"], "ISC", False)], header=c["hdr"])
    materialise(root, rec)
    convert_and_compare(r, root, f"dep5 with copyright={c['cop']} licence={c['lic']} header={c['hdr']} comment={c['comment']}", f"fields|cop={c['cop']}|lic={c['lic']}")
    r.outcome = "fields-ok" if not r.viol else "fields-diff"
    r.evals = 3
    r.tags.append("fields")
    return r


def ev_fault(c) -> R:
    r = R()
    root = fresh_dir("c17")
    rec = dict(PATHS)
    f = c["fault"]
    if f != "no-dep5":
        rec[".reuse/dep5"] = dep5_text([(["*"], ["2001 Jane"], "MIT", False)])
    if f == "toml-is-directory":
        rec["REUSE.toml/inner"] = "x\n"
    elif f == "toml-is-fifo":
        # (opened for reading without blocking for the time of the command: what matters is that nothing is written into the pipe)
        rec["REUSE.toml"] = {"fifo": True}
    elif f == "toml-is-dangling-symlink":
        rec["REUSE.toml"] = {"symlink": "missing-dir/REUSE.toml"}
    elif f == "toml-is-symlink-to-file":
        rec["shared/REUSE.toml"] = "version = 1\n# shared with other projects\n"
        rec["REUSE.toml"] = {"symlink": "shared/REUSE.toml"}
    elif f == "toml-exists":
        rec["REUSE.toml"] = "version = 1\n"
    materialise(root, rec)
    before = read_tree(root)
    target = str(root / "REUSE.toml")
    real_unlink = os.unlink
    import pathlib

    real_p_unlink = pathlib.Path.unlink
    try:
        if f == "unlink-fails":
            def bad_unlink(self, *a, **kw):
                if str(self).endswith("dep5"):
                    raise PermissionError(13, "stub: cannot unlink", str(self))
                return real_p_unlink(self, *a, **kw)
            pathlib.Path.unlink = bad_unlink
        plan = FaultPlan(lambda p: p == target, modes="w") if f == "write-fails" else FaultPlan(lambda p: False)
        fd = os.open(target, os.O_RDONLY | os.O_NONBLOCK) if f == "toml-is-fifo" else None
        with faulty_open(plan):
            out = run_cli(["--root", str(root), "convert-dep5"])
        if fd is not None:
            try:
                piped = os.read(fd, 65536)
            except BlockingIOError:
                piped = b""
            os.close(fd)
            if piped or not os.path.exists(root / ".reuse/dep5") or out.exit_code == 0:
                r.violation("converted-into-a-pipe", f"convert-dep5 where REUSE.toml is a named pipe: exit {out.exit_code}, {len(piped)} bytes written into the pipe, "
                                                     f"dep5 {'kept' if os.path.exists(root / '.reuse/dep5') else 'removed'}")
    finally:
        pathlib.Path.unlink = real_p_unlink
    after = read_tree(root)
    has_dep5 = ".reuse/dep5" in after
    toml = after.get("REUSE.toml")
    label = f"convert-dep5 with fault {f}"
    if f == "no-dep5":
        if out.exit_code != 2 or out.exc:
            r.violation("no-dep5-not-refused", f"{label}: {out.brief()}")
        if after != before:
            r.violation("no-dep5-touched-tree", f"{label}: tree changed")
    elif f in ("toml-is-symlink-to-file", "toml-is-dangling-symlink"):
        # symbolic links are never followed: nothing may be written through REUSE.toml, and dep5 stays
        if after != before or os.path.lexists(root / "missing-dir"):
            changed = sorted(k for k in set(after) | set(before) if after.get(k) != before.get(k))
            r.violation(f"wrote-through-symlink|{f}", f"{label}: exit {out.exit_code}; changed {changed}")
        if out.exit_code == 0:
            r.violation(f"symlink-accepted|{f}", f"{label}: exit 0")
    else:
        complete = toml is not None and b"[[annotations]]" in toml and b"2001 Jane" in toml
        if not has_dep5 and not complete:
            r.violation(f"neither-dep5-nor-toml|{f}", f"{label}: exit {out.exit_code} ({out.exc}); dep5 is gone and REUSE.toml is {'absent' if toml is None else 'incomplete: ' + repr(toml[:80])}")
        if out.exit_code == 0 and out.exc is None and not (complete and not has_dep5) and f not in ("unlink-fails",):
            r.violation(f"success-but-incomplete|{f}", f"{label}: exit 0 but dep5 present={has_dep5}, REUSE.toml complete={complete}")
    if out.exc is not None:
        r.violation(f"crash|{f}|{out.exc}", f"{label}: unhandled {out.exc_repr}")
    if f in ("write-fails", "toml-is-directory", "toml-is-fifo", "unlink-fails"):
        # whatever the answer was, the project must still be one: a REUSE.toml next to a dep5 that could not be removed stops every command
        lint = run_cli(["--root", str(root), "--no-multiprocessing", "lint", "--json"])
        if lint.exit_code == 2 or lint.exc is not None:
            r.violation(f"conversion-leaves-broken-project|{f}", f"{label}: exit {out.exit_code}; afterwards `reuse lint` stops with {str(lint.brief())[:300]}")
    r.outcome = f"fault-{f}-exit{out.exit_code}"
    r.tags.append("fault")
    return r


# Licence fields that dep5 tolerates (the synopsis is only parsed when a file is looked up) but that have no REUSE.toml counterpart
UNCONVERTIBLE = {"debian-comma-syntax": "GPL-2.0-or-later or MIT, and BSD-3-Clause", "slash-notation": "MIT/X11", "dangling-operator": "MIT OR",
                 "empty-synopsis": "", "empty-synopsis-with-text": "\n The licence text follows here\n .\n more"}


def ev_unconvertible(c) -> R:
    """The conversion either yields a REUSE.toml under which every command works as before, or refuses and leaves dep5 in place."""
    r = R()
    root = fresh_dir("c17")
    rec = dict(PATHS)
    lic = UNCONVERTIBLE[c["shape"]]
    odd_files = ["src/*"] if c["matches"] else ["no/such/dir/*"]
    rec[".reuse/dep5"] = dep5_text([(["*"], ["2001 Jane"], "MIT", False), (odd_files, ["2002 Odd"], lic, False)])
    materialise(root, rec)
    tree0 = read_tree(root)
    before = run_cli(["--root", str(root), "--no-multiprocessing", "--suppress-deprecation", "lint", "--json"])
    out = run_cli(["--root", str(root), "convert-dep5"])
    tree1 = read_tree(root)
    label = f"dep5 with a paragraph {odd_files} whose License field is {lic!r}"
    if out.exc:
        r.violation(f"unconvertible|crash|{c['shape']}", f"{label}: convert-dep5 raised {out.exc_repr}")
    elif out.exit_code != 0:
        if tree1 != tree0:
            r.violation(f"unconvertible|refused-but-changed|{c['shape']}", f"{label}: exit {out.exit_code} but the tree changed: {sorted(k for k in set(tree0) | set(tree1) if tree0.get(k) != tree1.get(k))}")
    else:
        after = run_cli(["--root", str(root), "--no-multiprocessing", "lint", "--json"])
        if after.exc or after.exit_code not in (0, 1) or (before.exit_code in (0, 1) and after.exit_code != before.exit_code):
            r.violation(f"unconvertible|project-broken-after-conversion|{c['shape']}|matches={c['matches']}",
                        f"{label}: lint exit {before.exit_code} before, convert-dep5 exit 0, lint afterwards: {str(after.brief())[:300]}")
    r.evals = 3
    r.outcome = f"unconvertible-exit{out.exit_code}"
    r.tags.append("unconvertible")
    return r


def ev_locale(c) -> R:
    """The environment's answer to 'which encoding do text files have' is ASCII (LC_ALL=C without UTF-8 mode): the real command in a
    subprocess.  REUSE.toml is read as UTF-8 whatever the locale, so it has to be written as UTF-8 too - or not at all."""
    import subprocess

    from ..core import PY

    r = R()
    root = fresh_dir("c17")
    holder = {"ascii": "2001 Jane Doe", "latin": "2001 J\u00fcrgen M\u00fcller", "cjk": "2001 \u5c71\u7530\u592a\u90ce"}[c["holder"]]
    rec = dict(PATHS)
    rec[".reuse/dep5"] = dep5_text([(["*"], [holder], "MIT", False)])
    materialise(root, rec)
    before = read_tree(root)
    env = {k: v for k, v in os.environ.items() if not k.startswith(("LC_", "LANG", "PYTHONUTF8", "PYTHONCOERCECLOCALE", "PYTHONIOENCODING"))}
    env.update({"LC_ALL": "C", "PYTHONUTF8": "0", "PYTHONCOERCECLOCALE": "0", "PYTHONPATH": os.pathsep.join(p for p in sys.path if p)})
    p = subprocess.run([PY, "-m", "reuse", "--root", str(root), "convert-dep5"], capture_output=True, env=env, timeout=120)
    after = read_tree(root)
    label = f"convert-dep5 under LC_ALL=C without UTF-8 mode, holder {holder!r}"
    toml = after.get("REUSE.toml")
    if p.returncode == 0:
        ok = toml is not None and ".reuse/dep5" not in after
        try:
            ok = ok and holder in toml.decode("utf-8")
        except UnicodeDecodeError:
            ok = False
        if not ok:
            r.violation(f"locale|success-but-wrong|{c['holder']}", f"{label}: exit 0, REUSE.toml {toml!r:.200}, dep5 present={'.reuse/dep5' in after}")
    else:
        if after != before:
            changed = sorted(k for k in set(after) | set(before) if after.get(k) != before.get(k))
            r.violation(f"locale|failed-but-changed|{c['holder']}", f"{label}: exit {p.returncode} ({p.stderr.decode('utf-8', 'replace')[-200:]!r}) and the tree changed: {changed} "
                                                                   f"(REUSE.toml now {toml!r:.80})")
    r.outcome = f"locale-exit{p.returncode}"
    r.tags.append("locale")
    return r


_EV = {"unconvertible": ev_unconvertible, "locale": ev_locale, "pat": ev_pat, "paras": ev_paras, "fields": ev_fields, "fault": ev_fault}


def evaluate(c) -> R:
    return _EV[c["k"]](c)


def vacuity(st):
    for t in _EV:
        if st.tags.get(t, 0) < (3 if t != "locale" else 1):
            return f"slice {t} did not run"
    return None


def run(tier, seed):
    t0 = time.time()
    n_self = au.selftest()
    st = explore(MODULE, tier, seed)
    st.extra["automaton_selftest_comparisons"] = n_self
    return finish(
        ID, "model_checking", MODULE, tier, seed, st, t0,
        rule=("every dep5 pattern python-debian accepts over {a . / * ? \\} up to the length bound (and pairs of patterns of length <= 2): product of the "
              "python-debian matcher automaton and the converted REUSE.toml matcher automaton explored to a fixed point in both directions over realistic paths; "
              "all paths of length <= 3 and every counterexample replayed on the two real matchers; every sequence of <= 3 Files paragraphs over a 12-entry menu "
              "and 72 field variants converted by the real command with lint --json compared before/after on a 12-path tree; 6 fault/refusal cells; "
              "non-trivial = pattern has a wildcard or escape / more than one paragraph"),
        bounds=bounds(tier, seed),
        assumptions=["paths are realistic relative paths without whitespace (dep5 patterns are whitespace separated)",
                     "Python's matcher equals NFA acceptance for the constructs python-debian and reuse emit"],
        vacuity=vacuity,
        extra_cov={"states": st.counters.get("product_states", 0) + len(st.state_hashes)},
    )
