"""C08 — annotate changes nothing but the header.

E1 over line-token sequences: every sequence (bounded length) over
{code, indented code, blank, whitespace-only, own-style comment, foreign
comment, existing REUSE header, form feed} x first-line prefix x line ending x
final newline x {replace, --no-replace} x comment style.  The split of the old
file into P (before), H (replaceable block) and S (after) is known by
construction; the new file must be core(P) . blank* . H' . blank* . core(S)
where H' holds no body line.
"""
from __future__ import annotations

import itertools
import time

from .. import annot
from ..core import HarnessError, R, explore, finish, fresh_dir

ID = "C08"
MODULE = "mc.checks.c08"
TOKENS = "CIBWOFHLTS"  # code, indented, blank, whitespace-only, own comment, foreign comment, header, form-feed line, header with trailing blanks, shebang-like body line
# eleventh token, multi-line-only styles: a comment block with a tag whose closing line carries code after the terminator, followed by a code
# line that ends in a comment.  The block cannot be cut out in whole lines, so it is body text, not a replaceable header.
XTOKEN = "X"
X_STYLES = ("c", "cpp-multi", "html", "jinja", "ml", "css", "xquery", "vst", "ftl", "handlebars", "aspx", "bibtex")
BOM = "﻿"

STYLES = {
    # name: (file name, extra args, single-line marker or None, (start, middle, end) or None, foreign comment)
    "python": ("f.py", [], "#", None, "// foreign"),
    "c": ("f.c", [], None, ("/*", " *", " */"), "# foreign"),
    "cpp-multi": ("f.cpp", ["--multi-line"], "//", ("/*", " *", " */"), "# foreign"),
    "html": ("f.html", [], None, ("<!--", "", "-->"), "# foreign"),
    "lisp": ("f.lisp", [], ";;;", None, "# foreign"),
    "julia": ("f.jl", [], "#", ("#=", "", "=#"), "// foreign"),
    "jinja": ("f.jinja2", [], None, ("{#", "", "#}"), "// foreign"),
    "plantuml": ("f.puml", [], "'", ("/'", " '", " '/"), "# foreign"),
}
MORE_STYLES = {
    "tex": ("f.tex", [], "%", None, "# foreign"), "bat": ("f.bat", [], "REM", None, "# foreign"), "rst": ("f.rst", [], "..", None, "# foreign"),
    "haskell": ("f.hs", [], "--", None, "# foreign"), "ml": ("f.ml", [], None, ("(*", " *", " *)"), "# foreign"),
    "css": ("f.css", [], None, ("/*", " *", " */"), "# foreign"), "vim": ("f.vim", [], '"', None, "# foreign"),
    "m4": ("f.m4", [], "dnl", None, "# foreign"), "f90": ("f.f90", [], "!", None, "# foreign"), "man": ("f.man", [], '.\\"', None, "# foreign"),
    "xquery": ("f.xq", [], None, ("(:", " :", " :)"), "# foreign"), "vst": ("f.vm", [], None, ("#*", "", "*#"), "// foreign"),
    "ftl": ("f.ftl", [], None, ("<#--", "", "-->"), "# foreign"), "handlebars": ("f.hbs", [], None, ("{{!--", "", "--}}"), "# foreign"),
    "aspx": ("f.aspx", [], None, ("<%--", "", "--%>"), "# foreign"), "applescript": ("f.applescript", [], "--", ("(*", "", "*)"), "# foreign"),
    "semicolon": ("f.ini", [], ";", None, "# foreign"), "bibtex": ("f.bib", [], None, ("@Comment{", "", "}"), "# foreign"),
    "cppsingle": ("f.gleam", [], "//", None, "# foreign"),
}


def all_styles(tier):
    d = dict(STYLES)
    if tier == "thorough":
        d.update(MORE_STYLES)
    return d


def shebangs_of(fname):
    from reuse.comment import get_comment_style

    return list(get_comment_style(fname).SHEBANGS)


def token_lines(tok, i, st):
    _f, _a, single, multi, foreign = st
    if tok == "C":
        return [f"code_{i} = {i}"]
    if tok == "I":
        return [f"    indented_{i}()   "]
    if tok == "B":
        return [""]
    if tok == "W":
        return ["   \t"]
    if tok == "O":
        if single:
            return [f"{single} own comment {i}"]
        return [f"{multi[0]} own comment {i} {multi[2].strip()}"]
    if tok == "F":
        return [f"{foreign} {i}"]
    if tok == "L":
        return ["\f"]
    if tok == "S":
        sh = shebangs_of(_f)
        # a body line that merely looks like a first-line declaration (only the very first line of a file is one)
        return [f"{sh[-1]} body_line_{i}" if sh else f"shebangless_body_{i} = {i}"]
    if tok == "M":
        # a header pasted from a CRLF file into an LF file: its lines (and only they) end in CR LF
        tags = [f"SPDX-FileCopyrightText: 200{i} Old{i}", "SPDX-License-Identifier: ISC", "SPDX-FileContributor: Pasted"]
        if single:
            return [f"{single} {t}\r" for t in tags]
        return [multi[0] + "\r"] + [(f"{multi[1]} {t}" if multi[1] else t) + "\r" for t in tags] + [multi[2] + "\r"]
    if tok == "R":
        # a code line that holds a carriage return as data (a Vim mapping, a test fixture): only judged in LF files
        return [f"map_{i} = 'a\rb'"]
    if tok == "N":
        # an SPDX snippet further down in the file: its comment belongs to the snippet, it is not the file's header
        c1 = (lambda t: f"{single} {t}") if single else (lambda t: f"{multi[0]} {t} {multi[2].strip()}")
        return [c1("SPDX-SnippetBegin"), c1(f"SPDX-SnippetCopyrightText: 2003 Snippet Author {i}"), c1("SPDX-License-Identifier: Zlib"),
                f"snippet_code_{i}()", c1("SPDX-SnippetEnd")]
    if tok in "UQ":
        # U: a one-line header; Q: a code line that quotes exactly that header text in a string
        one = f"{single} SPDX-FileCopyrightText: 2009 OldU" if single else f"{multi[0]} SPDX-FileCopyrightText: 2009 OldU {multi[2].strip()}"
        return [one] if tok == "U" else [f'emit_{i}("{one}")']
    if tok == "G":
        # one code line longer than the 4096-byte window the tool uses elsewhere
        return [f"long_{i} = '" + "x" * 5000 + "'"]
    if tok == "Y":
        # like X, but the closing line itself ends in a second comment: '*/ code(); /* c */'
        mid = f"{multi[1]} SPDX-License-Identifier: ISC".strip() if multi[1] else "SPDX-License-Identifier: ISC"
        return [multi[0], (" " if multi[1] else "") + mid, f"{multi[2]} after_terminator_{i} = {i}; {multi[0]} c {multi[2].strip()}", f"later_{i} = {i}"]
    if tok == "X":
        mid = f"{multi[1]} SPDX-License-Identifier: ISC".strip() if multi[1] else "SPDX-License-Identifier: ISC"
        return [multi[0], (" " if multi[1] else "") + mid, f"{multi[2]} after_terminator_{i} = {i}", f"later_{i} = {i} {multi[0]} c {multi[2].strip()}"]
    if tok in "HT":
        tags = [f"SPDX-FileCopyrightText: 200{i} Old{i}", f"SPDX-License-Identifier: ISC"]
        pad = "  " if tok == "T" else ""
        if single:
            out = [f"{single} {tags[0]}{pad}"] + ([f"{single} "] if pad else []) + [f"{single} {tags[1]}"]
            return out
        mid = [f"{multi[1]} {t}".rstrip() + pad if multi[1] else t + pad for t in tags]
        return [multi[0] + pad] + mid + [multi[2]]
    raise AssertionError(tok)


def split_by_construction(seq, st, prefix_lines, replace):
    """Returns (P_lines, H_lines, S_lines): the old file as three line lists."""
    single = st[2]
    chunks = [(t, token_lines(t, i, st)) for i, t in enumerate(seq)]
    P = list(prefix_lines)
    hs = [i for i, t in enumerate(seq) if t in "HTUM"]
    if not replace or not hs:
        return P, [], [l for _t, ls in chunks for l in ls], (0, -1)
    hi = hs[0]
    lo, up = hi, hi
    if single:
        # a shebang-like body line that starts with the single-line marker ('#!' in '#' styles) is itself a comment line
        run = "OHTUM" + ("S" if chunks and any(t == "S" and ls[0].startswith(single) for t, ls in chunks) else "")
        while lo > 0 and seq[lo - 1] in run:
            lo -= 1
        while up + 1 < len(seq) and seq[up + 1] in run:
            up += 1
        # a '#!' shebang is itself a comment line of '#' styles: it joins the run but stays first
    before = [l for _t, ls in chunks[:lo] for l in ls]
    block = [l for _t, ls in chunks[lo:up + 1] for l in ls]
    after = [l for _t, ls in chunks[up + 1:] for l in ls]
    return P + before, block, after, (lo, up)


def bounds(tier, seed):
    return {"tokens": list(TOKENS) + ["X (multi-line-only styles)", "G (5000-character line), U (one-line header), Q (code line quoting U's text): 26 fixed sequences per style; N (snippet block), R (carriage return as data in an LF file, 10 sequences), M (header with CR LF lines pasted into an LF file, 5 sequences)"], "max_len": {"python,c": 3 if tier == "quick" else 4, "other styles": 2 if tier == "quick" else 3},
            "styles": list(all_styles(tier)), "prefixes": ["none", "BOM", "shebang (styles that define one)", "BOM+shebang", "'#!' interpreter line (every style, 8 fixed sequences)"],
            "line_endings": ["LF", "CRLF", "CR"], "final_newline": [True, False], "modes": ["replace", "--no-replace"],
            "seed_slice": "sequences of the next length starting with TOKENS[seed % 10] for python" if tier == "quick" else None}


def seqs(n, alphabet=TOKENS):
    for k in range(0, n + 1):
        for tup in itertools.product(alphabet, repeat=k):
            yield "".join(tup)


def cases(tier, seed):
    deep = 3 if tier == "quick" else 4
    shallow = 2 if tier == "quick" else 3
    for name in all_styles(tier):
        n = deep if name in ("python", "c") else shallow
        for s in seqs(n, TOKENS + XTOKEN if name in X_STYLES else TOKENS):
            for prefix in ("none", "bom", "shebang", "bom+shebang", "two-shebangs"):
                for ending in ("\n", "\r\n", "\r"):
                    for final in (True, False):
                        for replace in (True, False):
                            yield {"style": name, "seq": s, "prefix": prefix, "ending": ending, "final": final, "replace": replace}
    # styles whose file types include languages that are run as '#!' scripts (Lua and Haskell under 'haskell'; Lisp, Scheme, Clojure, Emacs
    # Lisp under 'lisp'; osascript); for markup styles the pinned suite says that '#!' is nothing special
    for name in ("python", "julia", "cpp-multi", "cppsingle", "tex", "haskell", "lisp", "applescript"):
        for s in ("", "C", "H", "CH", "HC", "BC", "O", "OC"):
            for ending in ("\n", "\r\n"):
                for replace in (True, False):
                    yield {"style": name, "seq": s, "prefix": "hashbang", "ending": ending, "final": True, "replace": replace}
    for name in all_styles(tier):
        if name in X_STYLES:
            for s in ("Y", "CY", "YC", "YH", "HY", "OY", "BY"):
                for ending in ("\n", "\r\n"):
                    for final in (True, False):
                        for replace in (True, False):
                            yield {"style": name, "seq": s, "prefix": "none", "ending": ending, "final": final, "replace": replace}
    for name in all_styles(tier):
        for s in ("G", "GH", "HG", "GC", "CG", "OGH", "GBH", "U", "QU", "QCU", "QBU", "CQU", "QUC", "UQ", "QQU", "QOU",
                  "N", "CN", "NC", "HN", "HCN", "NH", "CNH", "ON", "BN", "NN"):
            for prefix in ("none", "bom", "shebang"):
                for ending in ("\n", "\r\n", "\r"):
                    for final in (True, False):
                        for replace in (True, False):
                            yield {"style": name, "seq": s, "prefix": prefix, "ending": ending, "final": final, "replace": replace}
    for name in all_styles(tier):
        for s in ("R", "CR", "RC", "HR", "RH", "CRH", "RRC", "CCCR", "RCCC", "CRC", "CCCCM", "MCCCC", "CCMCC", "CCCCMB", "CCCCCCM"):
            for prefix in ("none", "bom", "shebang"):
                for final in (True, False):
                    for replace in (True, False):
                        yield {"style": name, "seq": s, "prefix": prefix, "ending": "\n", "final": final, "replace": replace}
    for name in SPECIAL_NAMES:
        for extra in ([], ["--no-replace"], ["--fallback-dot-license"], ["--skip-unrecognised"]):
            yield {"special": name, "extra": extra}
    if tier == "quick":
        first = TOKENS[seed % 10]
        for tup in itertools.product(TOKENS, repeat=deep):
            yield {"style": "python", "seq": first + "".join(tup), "prefix": "none", "ending": "\n", "final": True, "replace": True}


def head_blank_stripped(lines):
    """Remove whole blank / whitespace-only lines from the head (never the
    indentation of the first real line)."""
    i = 0
    while i < len(lines) and lines[i].strip(" \t\f\v") == "":
        i += 1
    return lines[i:]


SPECIAL_NAMES = ["zlib.LICENSE", "third_party/openssl.License", "Notes.LICENSE", "README.PY", "script.SH", "data.LICENSE.txt", "x.license.py"]


def evaluate_special(c) -> R:
    """File names whose extension differs from a table entry only in letter case (lint treats '*.LICENSE' as an ordinary covered file):
    whatever annotate decides to do, the lines of the file survive, in order."""
    r = R()
    root = fresh_dir("c08")
    name = c["special"]
    body = ["Permission is hereby granted, free of charge, to any person", "obtaining a copy of this software; line two of the body", "", "last line of the body"]
    path = root / name
    path.parent.mkdir(parents=True, exist_ok=True)
    path.write_text("\n".join(body) + "\n")
    res = annot.annotate(root, ["--copyright", "Jane Doe", "--license", "MIT", "--year", "2020", *c["extra"]], [path])
    if res.exc:
        r.violation(f"crash|special|{res.exc}", f"annotate {c['extra']} on {name!r}: {res.exc_repr}")
        return r
    new = path.read_text().split("\n")
    it = iter(new)
    lost = [l for l in body if l and not any(l == x for x in it)]
    if lost:
        r.violation(f"special|body-lines-lost|{name.rsplit('.', 1)[-1]}", f"annotate {c['extra']} on {name!r} (exit {res.exit_code}): body lines {lost!r} are gone; file now {path.read_text()[:200]!r}")
    r.outcome = f"special-exit{res.exit_code}"
    r.tags.append("special")
    return r


def evaluate(c) -> R:
    if "special" in c:
        return evaluate_special(c)
    r = R()
    st = all_styles("thorough")[c["style"]]
    fname, extra, single, multi, _foreign = st
    sheb = shebangs_of(fname)
    prefix_lines = []
    if c["prefix"] == "two-shebangs":
        if len(sheb) < 2:
            r.outcome, r.nontrivial = "n/a", False
            return r
        # two first-line declarations of different kinds, in the order the style lists them
        prefix_lines = [sheb[0] + " first declaration"]
        second_line = [sheb[1] + " second declaration"]
    elif c["prefix"] == "hashbang":
        # '#!' starts an interpreter line whatever the language's comment syntax is (Lua, Haskell, Lisp, AppleScript ... scripts)
        prefix_lines = ["#!/usr/bin/env interpreter --flag"]
    elif "shebang" in c["prefix"]:
        if not sheb:
            r.outcome, r.nontrivial = "n/a", False
            return r
        prefix_lines = [sheb[0] + " first-line declaration"]
    seq = c["seq"]
    if seq.startswith("S") and sheb and (not prefix_lines or (c["prefix"] != "two-shebangs" and sheb[-1] == sheb[0])):
        # (also: consecutive leading lines of the same declaration kind are kept together on top)
        # the shebang-like line is the very first line of the file: then it *is* the first-line declaration
        r.outcome, r.nontrivial = "n/a", False
        return r
    P, H, S, (h_lo, h_up) = split_by_construction(seq, st, prefix_lines, c["replace"])
    if c["prefix"] == "two-shebangs" and single and second_line[0].startswith(single) and H and h_lo == 0:
        # the second declaration is a comment line of the style directly in front of the header run: part of the replaced block
        r.outcome, r.nontrivial = "n/a", False
        return r
    if c["prefix"] == "two-shebangs":
        # only the first line must stay first; a second declaration-like line is an ordinary body line
        if H and not P[len(prefix_lines):]:
            pass
        body = second_line
        if H and len(P) == len(prefix_lines):
            P = P + body
        elif H:
            P = P[:len(prefix_lines)] + body + P[len(prefix_lines):]
        else:
            S = body + S
    old_lines = P + H + S
    if not old_lines:
        r.outcome, r.nontrivial = "n/a-empty", False
        return r
    old = "\n".join(old_lines) + ("\n" if c["final"] else "")
    if ("R" in seq or "M" in seq) and old.count("\n") - old.count("\r\n") <= old.count("\r"):
        # not an LF file by any count: a file whose only line break is the carriage return *is* a CR file
        r.outcome, r.nontrivial = "n/a", False
        return r
    bom = BOM if "bom" in c["prefix"] else ""
    old = bom + old
    ending = c["ending"]
    data = old.replace("\n", ending).encode("utf-8")
    root = fresh_dir("c08")
    path = root / fname
    path.write_bytes(data)
    argv = ["--copyright", "Jane Doe", "--license", "MIT", "--year", "2020", *extra] + ([] if c["replace"] else ["--no-replace"])
    res = annot.annotate(root, argv, [path])
    label = f"style {c['style']} tokens {seq!r} prefix {c['prefix']} ending {ending!r} final-newline {c['final']} {'replace' if c['replace'] else '--no-replace'}"
    sig = f"{c['style']}|{'replace' if c['replace'] else 'no-replace'}"
    if res.exc:
        r.violation(f"crash|{sig}|{res.exc}", f"{label}: annotate raised {res.exc_repr}; file {data!r}")
        return r
    if res.exit_code != 0:
        r.outcome, r.nontrivial = f"exit{res.exit_code}", False
        if path.read_bytes() != data:
            r.violation(f"failed-but-changed|{sig}", f"{label}: exit {res.exit_code} but the file changed")
        return r
    new_b = path.read_bytes()
    if (root / (fname + ".license")).exists():
        # binaryornot classified the content as binary (e.g. a lone form feed): the header went to a sibling
        r.outcome, r.nontrivial = "classified-binary", False
        if new_b != data:
            r.violation(f"binary-file-modified|{sig}", f"{label}: a .license was used but the file itself changed")
        return r
    try:
        new = new_b.decode("utf-8")
    except UnicodeDecodeError:
        r.violation(f"not-utf8|{sig}", f"{label}: result is not UTF-8")
        return r
    # --- line-ending convention
    has_term = ("\n" in old)
    if has_term or ending == "\n":
        probe = new.replace("\r\n", "\x00") if ending == "\r\n" else new
        other = {"\n": ["\r"], "\r\n": ["\r", "\n"], "\r": ["\n"]}[ending]
        if "M" in seq:
            # the carriage returns belong to the pasted header: none may be added, and nothing of the old header may stay behind
            if new.count("\r") > old.count("\r"):
                r.violation(f"line-ending|{sig}|pasted-crlf-header", f"{label}: more carriage returns than before: {new_b[:200]!r}")
        elif "R" in seq:
            # the carriage returns that are data must still be there, and no other
            if new.count("\r") != old.count("\r"):
                r.violation(f"line-ending|{sig}|stray-cr", f"{label}: old file is an LF file with {old.count(chr(13))} carriage return(s) as data, new file has {new.count(chr(13))}: {new_b[:200]!r}")
        elif any(o in probe for o in other):
            r.violation(f"line-ending|{sig}|{ending!r}", f"{label}: old file used {ending!r} only, new file {new_b!r} mixes conventions")
        new_n = new.replace(ending, "\n")
    else:
        new_n = new.replace("\r\n", "\n").replace("\r", "\n")
    # --- BOM
    if bom:
        if not new_n.startswith(BOM):
            r.violation(f"bom-not-first|{sig}", f"{label}: the byte order mark is no longer at byte 0: {new_b[:60]!r}")
        if new_n.count(BOM) != 1:
            r.violation(f"bom-count|{sig}", f"{label}: {new_n.count(BOM)} byte order marks in the result")
        new_n = new_n.replace(BOM, "", 1) if new_n.startswith(BOM) else new_n.replace(BOM, "")
    # --- first-line declaration stays first
    if prefix_lines and not new_n.startswith(prefix_lines[0] + "\n") and new_n != prefix_lines[0]:
        r.violation(f"shebang-not-first|{sig}", f"{label}: first line is {new_n.splitlines()[:1]!r}, expected {prefix_lines[0]!r}")
    for pl in (second_line if c["prefix"] == "two-shebangs" else []):
        if pl not in new_n:
            r.violation(f"second-declaration-lost|{sig}", f"{label}: line {pl!r} disappeared: {new_n!r}")
    # --- structure: core(P) . middle . core(S)
    sheb_in_H = []
    if c["replace"] and H and single and not prefix_lines and not P:
        pass
    coreP = "\n".join(P).rstrip() if P else ""
    S_core_lines = head_blank_stripped(S)
    tail = "\n".join(S_core_lines) + ("\n" if (c["final"] and S_core_lines) else "")
    if not "".join(S_core_lines).strip():
        tail = ""
    ok_head = new_n.startswith(coreP)
    ok_tail = new_n.endswith(tail)
    # When nothing follows the header, the header's own last line terminator is the end of the file; whether the tool writes it is
    # "whitespace directly adjacent to the header" (the pinned suite expects it for .license files) and is not judged.
    if not ok_head:
        r.violation(f"before-part-altered|{sig}", f"{label}: text before the header must stay {coreP!r}; new file {new_n!r}")
    if not ok_tail:
        r.violation(f"after-part-altered|{sig}", f"{label}: text after the header must stay {tail!r}; new file {new_n!r}")
    if ok_head and ok_tail:
        if len(coreP) + len(tail) > len(new_n):
            r.violation(f"parts-overlap|{sig}", f"{label}: new file {new_n!r} shorter than kept parts")
        else:
            middle = new_n[len(coreP): len(new_n) - len(tail)]
            for t in ("SPDX-FileCopyrightText: 2020 Jane Doe", "SPDX-License-Identifier: MIT"):
                if t not in middle:
                    r.violation(f"new-tag-outside-header|{sig}", f"{label}: {t!r} not inside the header block; new file {new_n!r}")
            for i, tok in enumerate(seq):
                if tok in "CIFSXYGQNR" and not (h_lo <= i <= h_up):
                    body = token_lines(tok, i, st)[-1 if tok in "XY" else (1 if tok == "N" else 0)].strip()
                    if body in middle or (tok in "XY" and f"after_terminator_{i} = {i}" in middle):
                        r.violation(f"body-line-inside-header|{sig}", f"{label}: body line {body!r} ended up inside the header block {middle!r}")
            for line in middle.split("\n"):
                s = line.strip()
                if not s:
                    continue
                is_comment = (single and (s.startswith(single) or (c["style"] == "lisp" and s.startswith(";")))) or \
                             (multi and (s in (multi[0].strip(), multi[2].strip()) or s.startswith(multi[1].strip() or "SPDX") or s.startswith("SPDX")
                                         or s.startswith(multi[0].strip())))
                if not is_comment:
                    r.violation(f"non-comment-line-in-header|{sig}", f"{label}: line {line!r} inside the header block is not a comment of the style; new file {new_n!r}")
                    break
            if H and c["replace"]:
                for i, tok in enumerate(seq):
                    if tok in "HTUM" and i == min(j for j, t in enumerate(seq) if t in "HTUM") and (f"Old{i}" if tok != "U" else "OldU") not in middle:
                        r.violation(f"old-info-lost|{sig}", f"{label}: information of the replaced header (Old{i}) is gone: {new_n!r}")
    r.outcome = "exit0"
    r.nontrivial = len(seq) >= 1
    if H:
        r.tags.append("replaced")
    if bom:
        r.tags.append("bom")
    if prefix_lines:
        r.tags.append("shebang")
    return r


def vacuity(st):
    for t in ("replaced", "bom", "shebang"):
        if st.tags.get(t, 0) < 10:
            return f"no case tagged {t}"
    if st.outcomes.get("exit0", 0) < 1000:
        return f"outcomes {dict(st.outcomes)}"
    return None


def run(tier, seed):
    t0 = time.time()
    st = explore(MODULE, tier, seed)
    return finish(
        ID, "model_checking", MODULE, tier, seed, st, t0,
        rule=("every line-token sequence up to the length bound x first-line prefix x line ending x final newline x {replace, --no-replace} x style; "
              "one real `reuse annotate` per case; structural oracle on the bytes (kept parts byte-for-byte, BOM/shebang first, line-ending convention, "
              "header block holds only comment lines); non-trivial = non-empty body and annotate succeeded"),
        bounds=bounds(tier, seed),
        assumptions=["mixed line endings inside one file are unspecified and not generated",
                     "in a single-line style the replaced block is the maximal run of adjacent own-style comment lines that contains the first REUSE header"],
        vacuity=vacuity,
    )
