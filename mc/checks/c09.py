"""C09 — annotate accumulates information and never drops any.

E2: breadth-first search over sequences of annotate invocations.  A state is
(tree bytes, running model of what the file must declare); a transition runs
one real `reuse annotate` from a 15-command menu; states are de-duplicated on
bytes + model.  After every transition the information read back must equal
old U requested (semantically for --merge-copyrights).  A violation is replayed
from the initial state without the explorer (evaluate(case)).
"""
from __future__ import annotations

import json
import time

from .. import annot
from ..core import HarnessError, R, Stats, canon, finish, fresh_dir, h64, pmap
from ..fstree import materialise, read_tree
from ..lintutil import PNG_HEX
from ..refmodel import copyright as cref

ID = "C09"
MODULE = "mc.checks.c09"

MENU = {
    "holderA": ["--copyright", "Alice A", "--year", "2020"],
    "holderB-string-c": ["--copyright", "Bob B", "--copyright-prefix", "string-c", "--exclude-year"],
    "licX": ["--license", "MIT"],
    "licY": ["--license", "Apache-2.0 OR MIT"],
    "contribK": ["--contributor", "Kim K"],
    "holderA-2018": ["--copyright", "Alice A", "--year", "2018"],
    "multi": ["--copyright", "Cyd C", "--exclude-year", "--multi-line"],
    "no-replace": ["--copyright", "Dee D", "--exclude-year", "--no-replace"],
    "merge": ["--copyright", "Alice A", "--year", "2022", "--merge-copyrights"],
    "skip-existing": ["--license", "ISC", "--skip-existing"],
    "tpl-full": ["--license", "Zlib", "--contributor", "Lee L", "--template", "full"],
    "tpl-nocontrib": ["--license", "0BSD", "--template", "nocontrib"],
    # commands that the tool has to refuse (or carry out completely): nothing may be lost either way
    "tpl-drops-licences": ["--license", "Unlicense", "--copyright", "Fay F", "--exclude-year", "--template", "nolicence"],
    "hostile-holder": ["--copyright", "Eve :) -->", "--exclude-year"],
    # the file is named explicitly although --recursive is given (an explicitly named file is taken as it is, covered or not)
    "recursive-named": ["--copyright", "Gil G", "--exclude-year", "--recursive"],
}
REQ = {  # what each command requests: (copyright lines, expressions, contributors)
    "holderA": (["SPDX-FileCopyrightText: 2020 Alice A"], [], []),
    "holderB-string-c": (["Copyright (C) Bob B"], [], []),
    "licX": ([], ["MIT"], []),
    "licY": ([], ["Apache-2.0 OR MIT"], []),
    "contribK": ([], [], ["Kim K"]),
    "holderA-2018": (["SPDX-FileCopyrightText: 2018 Alice A"], [], []),
    "multi": (["SPDX-FileCopyrightText: Cyd C"], [], []),
    "no-replace": (["SPDX-FileCopyrightText: Dee D"], [], []),
    "merge": (["SPDX-FileCopyrightText: 2022 Alice A"], [], []),
    "skip-existing": ([], ["ISC"], []),
    "tpl-full": ([], ["Zlib"], ["Lee L"]),
    "tpl-nocontrib": ([], ["0BSD"], []),
    "tpl-drops-licences": (["SPDX-FileCopyrightText: Fay F"], ["Unlicense"], []),
    "hostile-holder": (["SPDX-FileCopyrightText: Eve :) -->"], [], []),
    "recursive-named": (["SPDX-FileCopyrightText: Gil G"], [], []),
}
STYLES = {"python": "f.py", "c": "f.c", "html": "f.html", "cpp": "f.cpp"}
COMMENT = {
    "python": lambda ls: "".join(f"# {l}\n" for l in ls),
    "c": lambda ls: "/*\n" + "".join(f" * {l}\n" for l in ls) + " */\n",
    "html": lambda ls: "<!--\n" + "".join(f"{l}\n" for l in ls) + "-->\n",
    "cpp": lambda ls: "".join(f"// {l}\n" for l in ls),
}
CPP_MULTI = lambda ls: "/*\n" + "".join(f" * {l}\n" for l in ls) + " */\n"
STARTS = ["empty", "code", "foreign-prefix-header", "multi-line-header", "binary-with-license", "binary-no-license", "binary-with-unparseable-license",
          "unparseable-tag-header"]


def initial(style, start):
    """(files, model, target file name)"""
    name = STYLES[style]
    tpl = annot.template_recipe(["full", "nocontrib", "nolicence"])
    model = {"c": [], "l": [], "k": []}
    if start == "empty":
        files = {name: ""}
    elif start == "code":
        files = {name: "body line one\nbody line two\n"}
    elif start == "foreign-prefix-header":
        lines = ["Copyright (C) 2001 Old Corp", "SPDX-FileCopyrightText: 2010-2012 Alice A", "SPDX-FileContributor: Zed Z", "", "SPDX-License-Identifier: ISC"]
        files = {name: COMMENT[style](lines) + "\nbody line\n"}
        model = {"c": ["Copyright (C) 2001 Old Corp", "SPDX-FileCopyrightText: 2010-2012 Alice A"], "l": ["ISC"], "k": ["Zed Z"]}
    elif start == "multi-line-header":
        lines = ["SPDX-FileCopyrightText: 2005 - 2007 Alice A", "", "SPDX-License-Identifier: ISC"]
        f = CPP_MULTI if style == "cpp" else COMMENT[style]
        files = {name: f(lines) + "\nbody line\n"}
        model = {"c": ["SPDX-FileCopyrightText: 2005 - 2007 Alice A"], "l": ["ISC"], "k": []}
    elif start == "binary-with-unparseable-license":
        # a hand-written sidecar in the slash notation: the notices in it are declared by a human reader's standard, and must not be wiped
        name = "img.png"
        files = {name: None, name + ".license": "SPDX-FileCopyrightText: 2019 Jane Doe\nSPDX-FileContributor: Zed Z\nSPDX-License-Identifier: MIT/Apache-2.0\n"}
        model = {"c": ["SPDX-FileCopyrightText: 2019 Jane Doe"], "l": [], "k": ["Zed Z"]}
    elif start == "unparseable-tag-header":
        files = {name: COMMENT[style](["SPDX-FileCopyrightText: 2019 Jane Doe", "SPDX-License-Identifier: MIT/Apache-2.0"]) + "\nbody line\n"}
        model = {"c": ["SPDX-FileCopyrightText: 2019 Jane Doe"], "l": [], "k": []}
    elif start == "binary-no-license":
        name = "img.png"
        files = {name: None}
    else:
        name = "img.png"
        files = {name: None, name + ".license": "SPDX-FileCopyrightText: 2003 Pic P\n\nSPDX-License-Identifier: ISC\n"}
        model = {"c": ["SPDX-FileCopyrightText: 2003 Pic P"], "l": ["ISC"], "k": []}
    return files, model, name, tpl


def to_recipe(files, tpl):
    rec = dict(tpl)
    for n, v in files.items():
        rec[n] = {"hex": PNG_HEX} if v is None else ({"empty": True} if v == "" else {"latin1": v})
    return rec


def declared(root, name, files_after):
    info = annot.lint_file_info(root, name)
    if info is None:
        if files_after.get(name) == b"":
            return [], [], []  # an empty file is not covered
        raise HarnessError(f"{name} not in lint output")
    text = files_after.get(name + ".license", files_after.get(name, b"")).decode("utf-8", "replace")
    return info[0], info[1], annot.contributors_of(text)


def holders_years(lines):
    out = {}
    for l in lines:
        p = cref.parse(l)
        if p is None:
            out.setdefault("<unparsed>" + l, set())
            continue
        out.setdefault(p[2], set()).update(p[1])
    return out


def step(files, model, name, tpl, style, cmd):
    """Run one transition on a scratch tree; returns (new files, new model, violations, outcome)."""
    root = fresh_dir("c09")
    materialise(root, to_recipe(files, tpl))
    argv = list(MENU[cmd])
    viols = []
    res = annot.annotate(root, argv, [root / name])
    after = read_tree(root)
    new_files = {}
    for n in list(files) + [n for n in after if n.endswith(".license") and n not in files and not n.startswith(".reuse")]:
        if n in after:
            new_files[n] = None if files.get(n, "") is None else after[n].decode("latin-1")
    label = f"{style} {name}: annotate {argv}"
    if res.exc:
        viols.append((f"crash|{cmd}", f"{label} raised {res.exc_repr}"))
        return files, model, viols, "crash"
    if res.exit_code == 2:
        if {k: v for k, v in after.items() if not k.startswith(".reuse")} != {k: v for k, v in read_back_bytes(files).items()}:
            viols.append((f"usage-error-changed-tree|{cmd}", f"{label}: exit 2 but tree changed"))
        return files, model, viols, "usage"
    if res.exit_code != 0:
        # a refused step must leave everything as it was (the information the file declared stays declared)
        if {k: v for k, v in after.items() if not k.startswith(".reuse")} != read_back_bytes(files):
            changed = sorted(k for k in set(after) | set(files) if not k.startswith(".reuse") and after.get(k) != read_back_bytes(files).get(k))
            viols.append((f"refused-step-changed-file|{cmd}", f"{label}: exit {res.exit_code} but {changed} changed: before {files.get(changed[0])!r} after {after.get(changed[0])!r}"))
        return files, model, viols, f"exit{res.exit_code}"
    skipped = "Skipped file" in res.stdout
    want = {k: list(v) for k, v in model.items()}
    rc, rl, rk = REQ[cmd]
    if not skipped:
        want["c"] = sorted(set(want["c"]) | set(rc))
        want["l"] = sorted(set(want["l"]) | set(rl))
        want["k"] = sorted(set(want["k"]) | set(rk))
    got_c, got_l, got_k = declared(root, name, after)
    got_c, got_l, got_k = sorted(set(got_c)), sorted(set(got_l)), sorted(set(got_k))
    if cmd == "merge" and not skipped:
        hw, hg = holders_years(want["c"]), holders_years(got_c)
        if set(hw) != set(hg):
            viols.append((f"merge-holders|{cmd}", f"{label}: holders before+requested {sorted(hw)}, after {sorted(hg)}; lines {got_c}"))
        else:
            for h in hw:
                if hw[h] and (not hg[h] or min(hg[h]) > min(hw[h]) or max(hg[h]) < max(hw[h])):
                    viols.append((f"merge-years|{cmd}", f"{label}: holder {h!r} years {sorted(hw[h])} before, {sorted(hg[h])} after; lines {got_c}"))
        want["c"] = got_c
    elif got_c != want["c"]:
        lost, extra = sorted(set(want["c"]) - set(got_c)), sorted(set(got_c) - set(want["c"]))
        viols.append((f"copyright-{'lost' if lost else 'extra'}|{cmd}", f"{label}: file declared {model['c']}, requested {rc}; now declares {got_c} (lost {lost}, extra {extra})"))
    if got_l != want["l"]:
        lost, extra = sorted(set(want["l"]) - set(got_l)), sorted(set(got_l) - set(want["l"]))
        viols.append((f"licence-{'lost' if lost else 'extra'}|{cmd}", f"{label}: file declared {model['l']}, requested {rl}; now declares {got_l} (lost {lost}, extra {extra})"))
    if cmd == "tpl-nocontrib" and not skipped:
        if not set(got_k) <= set(want["k"]):
            viols.append((f"contributor-extra|{cmd}", f"{label}: contributors {got_k} not among {want['k']}"))
        want["k"] = got_k  # a template that does not render contributors may drop those of the replaced block
    elif got_k != want["k"]:
        lost, extra = sorted(set(want["k"]) - set(got_k)), sorted(set(got_k) - set(want["k"]))
        viols.append((f"contributor-{'lost' if lost else 'extra'}|{cmd}", f"{label}: file declared contributors {model['k']}, requested {rk}; now {got_k}"))
    if viols:
        viols = [(s, m + f"; file before {files.get(name + '.license', files.get(name))!r} after {new_files.get(name + '.license', new_files.get(name))!r}") for s, m in viols]
    return new_files, want, viols, ("skipped" if skipped else "exit0")


def read_back_bytes(files):
    return {n: (bytes.fromhex(PNG_HEX) if v is None else v.encode("latin-1")) for n, v in files.items()}


def evaluate(case) -> R:
    """Replay one history from its initial state (no explorer involved)."""
    r = R()
    files, model, name, tpl = initial(case["style"], case["start"])
    r.transitions = 0
    for cmd in case["history"]:
        files, model, viols, outcome = step(files, model, name, tpl, case["style"], cmd)
        r.transitions += 1
        r.outcome = outcome
        for sig, msg in viols:
            r.violation(sig, f"start {case['start']}, history {case['history']}: {msg}")
        if viols:
            break
    return r


def _expand(task):
    style, start, history, files, model, name, tpl, cmd = task
    try:
        nf, nm, viols, outcome = step(files, model, name, tpl, style, cmd)
    except HarnessError as e:
        return ("harness", f"{e} on {style}/{start}/{history + [cmd]}")
    return (nf, nm, viols, outcome)


def bounds(tier, seed):
    return {"menu": list(MENU), "starts": STARTS, "styles": list(STYLES), "depth": 3 if tier == "quick" else 4,
            "dedup": "sha1(tree bytes + model)"}


def run(tier, seed):
    t0 = time.time()
    depth = 3 if tier == "quick" else 4
    st = Stats()
    cmds = list(MENU)
    merged_paths = 0
    for style in STYLES:
        for start in STARTS:
            if start.startswith("binary") and style != "python":
                continue
            files, model, name, tpl = initial(style, start)
            key0 = h64([files, model])
            seen = {key0}
            st.state_hashes.add(h64([style, start, key0]))
            frontier = [([], files, model)]
            for d in range(depth):
                tasks = [(style, start, hist, f, m, name, tpl, c) for hist, f, m in frontier for c in cmds]
                results = pmap(_expand, tasks, chunksize=8)
                nxt = []
                for task, res in zip(tasks, results):
                    hist = task[2] + [task[7]]
                    st.transitions += 1
                    st.evaluations += 2
                    st.cases += 1
                    if res[0] == "harness":
                        st.harness_errors.append(res[1])
                        continue
                    nf, nm, viols, outcome = res
                    st.validated += 1
                    st.outcomes[outcome] += 1
                    st.tags[task[7]] += 1
                    case = {"style": style, "start": start, "history": hist}
                    for sig, msg in viols:
                        st.viol_count += 1
                        st.viol_by_sig[sig] += 1
                        st._keep({"signature": sig, "message": f"start {start}, history {hist}: {msg}", "case": case})
                    if len(st.samples) < 4 and len(hist) == depth:
                        st.samples.append(case)
                    if viols or outcome in ("crash",):
                        continue
                    k = h64([nf, nm])
                    if k in seen:
                        merged_paths += 1
                        continue
                    seen.add(k)
                    skey = h64([style, start, k])
                    st.state_hashes.add(skey)
                    if outcome == "exit0":
                        st.nontrivial_hashes.add(skey)
                    nxt.append((hist, nf, nm))
                frontier = nxt
    st.extra["merged_paths"] = merged_paths

    def vac(s):
        if s.outcomes.get("exit0", 0) < 100:
            return f"outcomes {dict(s.outcomes)}"
        if merged_paths < 10:
            return "no two histories ever reached the same state (state hash too fine?)"
        return None

    return finish(
        ID, "model_checking", MODULE, tier, seed, st, t0,
        rule=("BFS over annotate command sequences (15-command menu) up to the depth bound from 8 initial files x 4 styles; states de-duplicated on "
              "(tree bytes, running model); every transition executes the real command and the read-back (lint --json + the tool's reader for "
              "contributors) must equal old U requested (semantically for --merge-copyrights); non-trivial = state reached by a successful run"),
        bounds=bounds(tier, seed),
        assumptions=["reuse keeps no state between invocations, so two histories reaching identical bytes and model have identical futures",
                     "a template that does not render contributors may drop the contributors of the block it replaces"],
        vacuity=vac,
    )
