"""C12 — ignore blocks hide exactly what they enclose.

E1: every token sequence up to a bounded length over
{start marker, end marker, licence tag, copyright tag, contributor tag, word,
newline}, rendered four ways (joined by one space / by nothing, bare / every
line prefixed with '# ').  Two oracles:

 (D) differential: real extract(text) == real extract(ref(text)), where ref()
     is the two-state reference scanner (outside/inside) below, whose output
     contains no start marker, so the real filter is the identity on it;
 (B) by construction, for sequences in which every tag is followed by a
     newline: extracted tags == exactly those tags the reference machine saw
     while outside a block.
"""

from __future__ import annotations

import itertools
import time

from ..core import R, explore, finish

ID = "C12"
MODULE = "mc.checks.c12"
START = "REUSE-Ignore" + "Start"
END = "REUSE-Ignore" + "End"
ALPHABET = "SELCKWN"
LICS = ["MIT", "0BSD", "ISC", "Zlib", "X11", "Unlicense", "curl", "Beerware"]
HOLDERS = ["Ann", "Bob", "Cyd", "Dee", "Eve", "Fay", "Gus", "Hal"]


def tok_text(t: str, i: int) -> str:
    if t == "S":
        return START
    if t == "E":
        return END
    if t == "L":
        return "SPDX-License-Identifier: " + LICS[i % 8]
    if t == "C":
        return "SPDX-FileCopyrightText: 20%02d %s" % (10 + i, HOLDERS[i % 8])
    if t == "K":
        return "SPDX-FileContributor: K%d" % i
    if t == "W":
        return "w%d" % i
    return "\n"


def render(toks: str, join: str, prefix: bool) -> str:
    parts = [tok_text(t, i) for i, t in enumerate(toks)]
    text = join.join(parts)
    if prefix:
        text = "\n".join("# " + line for line in text.split("\n"))
    return text


def ref_filter(text: str) -> tuple[str, bool]:
    """Two-state reference scanner.  Returns (text outside blocks, whether a
    scan (re)start position coincides with a start marker)."""
    out = []
    pos = 0
    at_zero = False
    while True:
        if text.startswith(START, pos):
            at_zero = True
        s = text.find(START, pos)
        if s < 0:
            out.append(text[pos:])
            break
        out.append(text[pos:s])
        e = text.find(END, s + len(START))
        if e < 0:
            break
        pos = e + len(END)
    return "".join(out), at_zero


def ref_tags(toks: str) -> tuple[set, set, set]:
    """Tags the token-level reference machine sees while outside a block."""
    inside = False
    lic, cop, con = set(), set(), set()
    for i, t in enumerate(toks):
        if inside:
            if t == "E":
                inside = False
            continue
        if t == "S":
            inside = True
        elif t == "L":
            lic.add(LICS[i % 8])
        elif t == "C":
            cop.add(tok_text(t, i))
        elif t == "K":
            con.add("K%d" % i)
    return lic, cop, con


def observe(text: str):
    from reuse.extract import extract_reuse_info

    try:
        info = extract_reuse_info(text)
    except Exception as e:  # ExpressionError / ParseError are part of the contract
        return ("exc", type(e).__name__)
    return (
        "ok",
        tuple(sorted(str(x) for x in info.spdx_expressions)),
        tuple(sorted(info.copyright_lines)),
        tuple(sorted(info.contributor_lines)),
    )


def seqs(maxlen: int):
    for n in range(0, maxlen + 1):
        for tup in itertools.product(ALPHABET, repeat=n):
            yield "".join(tup)


def bounds(tier: str, seed: int) -> dict:
    base = 6 if tier == "quick" else 8
    return {"max_len": base, "alphabet": list(ALPHABET), "joins": [" ", ""],
            "forms": ["bare", "# -prefixed"],
            "seed_slice": f"length {base + 1} sequences starting with alphabet[{seed % 7}]={ALPHABET[seed % 7]}"
            if tier == "quick" else None}


def cases(tier: str, seed: int):
    base = 6 if tier == "quick" else 8
    # CLI plumbing slice: the same oracle through a real file and `reuse lint --json`
    for s in seqs(3 if tier == "quick" else 4):
        yield "@" + s
    for k in (1, 2):
        for d in (-40, -1, 0, 1, 40):
            for closed in (0, 1):
                yield f"@big:{k}:{d}:{closed}"
    for n in (50, 400, 1200, 5000):
        yield f"@many:{n}"
    yield from seqs(base)
    if tier == "quick":
        first = ALPHABET[seed % 7]
        for tup in itertools.product(ALPHABET, repeat=base):
            yield first + "".join(tup)


def evaluate_big(spec: str) -> R:
    """A file read in full (it has a snippet marker) with an ignore block that
    is open across a multiple of 4096 bytes: tags inside must stay hidden,
    tags after the block must count."""
    import json

    from ..cli import run_cli
    from ..core import fresh_dir

    r = R()
    _b, k, d, closed = spec.split(":")
    k, d, closed = int(k), int(d), int(closed)
    head = "SPDX-SnippetBegin\n" + START + "\n"
    unit = "filler line 0123456789\n"
    body = ""
    target = 4096 * k + d
    while len(head + body + unit) <= target:
        body += unit
    body += "x" * max(0, target - len(head + body) - 1) + "\n"
    hidden = "SPDX-License-Identifier: ISC\nSPDX-SnippetCopyrightText: 2001 Hidden\n"
    tail = (END + "\n") if closed else ""
    after = "SPDX-License-Identifier: MIT\nSPDX-SnippetCopyrightText: 2002 Shown\n" if closed else ""
    text = head + body + hidden + unit * 20 + tail + after
    root = fresh_dir("c12")
    (root / "f.txt").write_text(text)
    out = run_cli(["--root", str(root), "--no-multiprocessing", "lint", "--json"])
    f = [x for x in json.loads(out.stdout)["files"] if x["path"] == "f.txt"][0]
    got = (sorted(x["value"] for x in f["spdx_expressions"]), sorted(x["value"] for x in f["copyrights"]))
    want = (["MIT"], ["SPDX-SnippetCopyrightText: 2002 Shown"]) if closed else ([], [])
    r.validated = 1
    if got != want:
        r.violation("big-file-block-across-4096", f"snippet file of {len(text)} bytes, ignore block from byte {len('SPDX-SnippetBegin') + 1} "
                                                  f"{'to byte ' + str(len(head + body + hidden + unit * 20)) if closed else 'to the end'}, tags hidden at byte {len(head + body)}: lint reads {got}, expected {want}")
    r.outcome = "cli-big"
    r.tags.append("cli")
    return r


def evaluate_many(spec: str) -> R:
    """n closed ignore blocks in a row, each hiding a tag, and visible tags before and after them: in a snippet file (read in full) through
    lint, and as a text through the reader and through annotate's header search."""
    import json

    from ..cli import run_cli
    from ..core import fresh_dir

    r = R()
    n = int(spec.split(":")[1])
    blocks = "".join(f"# {START}\n# SPDX-License-Identifier: ISC\n# {END}\n" for _ in range(n))
    text = "# SPDX-SnippetBegin\n# SPDX-SnippetCopyrightText: 2001 Before\n" + blocks + "# SPDX-License-Identifier: MIT\n# SPDX-SnippetEnd\ncode = 1\n"
    root = fresh_dir("c12")
    (root / "f.py").write_text(text)
    out = run_cli(["--root", str(root), "--no-multiprocessing", "lint", "--json"])
    data = json.loads(out.stdout) if out.stdout.startswith("{") else None
    r.validated = 1
    want = (["MIT"], ["SPDX-SnippetCopyrightText: 2001 Before"])
    if data is None or out.exc:
        r.violation("many-blocks-lint-failed", f"{n} ignore blocks in a snippet file: {out.brief()}")
    else:
        f = [x for x in data["files"] if x["path"] == "f.py"]
        got = (sorted(x["value"] for x in f[0]["spdx_expressions"]), sorted(x["value"] for x in f[0]["copyrights"])) if f else None
        if got != want or data["non_compliant"]["read_errors"]:
            r.violation("many-blocks-misread", f"{n} ignore blocks in a snippet file: lint reads {got}, read errors {data['non_compliant']['read_errors']}; expected {want}")
    out = run_cli(["--root", str(root), "annotate", "--copyright", "Zed Z", "--year", "2020", str(root / "f.py")])
    if out.exc or out.exit_code not in (0, 1):
        r.violation("many-blocks-annotate-failed", f"annotate on a file with {n} ignore blocks: {out.brief()}")
    r.evals = 2
    r.outcome = "cli-many"
    r.tags.append("cli")
    return r


def evaluate_cli(toks: str) -> R:
    if toks.startswith("big:"):
        return evaluate_big(toks)
    if toks.startswith("many:"):
        return evaluate_many(toks)
    """A file holding the rendered sequence is linted; what lint attributes to
    it must equal the tags the reference machine sees outside blocks."""
    import json

    from ..cli import run_cli
    from ..core import fresh_dir

    r = R()
    r.evals = 0
    r.validated = 0
    for prefix in (False, True):
        text = render(toks, " ", prefix)
        by_construction = all((t not in "LCK") or i == len(toks) - 1 or toks[i + 1] == "N" for i, t in enumerate(toks))
        if not text.strip():
            continue
        root = fresh_dir("c12")
        (root / "f.txt").write_text(text + "\n")
        out = run_cli(["--root", str(root), "--no-multiprocessing", "lint", "--json"])
        r.evals += 1
        if out.exc or out.exit_code not in (0, 1):
            r.violation("cli-lint-failed", f"lint on {text!r}: {out.brief()}")
            continue
        f = [x for x in json.loads(out.stdout)["files"] if x["path"] == "f.txt"][0]
        got = ("ok", tuple(sorted(x["value"] for x in f["spdx_expressions"])), tuple(sorted(x["value"] for x in f["copyrights"])))
        want = observe(ref_filter(text + "\n")[0])
        want = ("ok", want[1], want[2]) if want[0] == "ok" else ("ok", (), ())
        if want[1] == () and want[2] == () and False:
            pass
        r.validated += 1
        if got != want:
            r.violation("cli-differs-from-reference", f"file {text!r}: lint attributes {got[1:]}, reference scanner + tag reader give {want[1:]}")
    # annotate --skip-existing asks the same question ("does the file already declare something?") of the same text
    text = render(toks, " ", True)
    if text.strip():
        seen = observe(ref_filter(text + "\n")[0])
        if seen[0] == "ok":
            declares = any(seen[1:])
            for ending in ("\n", "\r\n", "\r"):
                root = fresh_dir("c12")
                (root / "f.py").write_bytes((text + "\n").replace("\n", ending).encode())
                before = (root / "f.py").read_bytes()
                out = run_cli(["--root", str(root), "annotate", "--skip-existing", "--copyright", "Zed Z", "--license", "Zlib", "--year", "2020", str(root / "f.py")])
                r.evals += 1
                changed = (root / "f.py").read_bytes() != before
                if out.exc or out.exit_code != 0:
                    r.violation("skip-existing-failed", f"annotate --skip-existing on {text!r} ({ending!r} endings): {out.brief()}")
                elif declares and changed:
                    r.violation(f"skip-existing-annotated-a-declaring-file|{ending!r}", f"file {text!r} ({ending!r} endings) declares {seen[1:]} outside ignore blocks, but --skip-existing changed it")
                elif not declares and not changed:
                    r.violation(f"skip-existing-skipped-a-silent-file|{ending!r}", f"file {text!r} ({ending!r} endings) declares nothing outside ignore blocks, but --skip-existing skipped it: {out.stdout[-160:]!r}")
                r.validated += 1
    r.outcome = "cli"
    r.tags.append("cli")
    r.nontrivial = "S" in toks and any(t in toks for t in "LC")
    return r


def evaluate(toks: str) -> R:
    if toks.startswith("@"):
        return evaluate_cli(toks[1:])
    r = R()
    r.evals = 0
    r.validated = 0
    has_s = "S" in toks
    has_tag = any(t in toks for t in "LCK")
    r.nontrivial = has_s and has_tag
    r.transitions = 1 if toks else 0
    by_construction = all(
        (t not in "LCK") or i == len(toks) - 1 or toks[i + 1] == "N" for i, t in enumerate(toks)
    )
    outs = []
    for join in (" ", ""):
        for prefix in (False, True):
            text = render(toks, join, prefix)
            ref, at_zero = ref_filter(text)
            got = observe(text)
            want = observe(ref)
            r.evals += 2
            r.validated += 1
            outs.append(got[0] if got[0] == "exc" else (len(got[1]), len(got[2]), len(got[3])))
            if got != want:
                sig = ("start-marker-at-offset-0-of-scan" if at_zero
                       else "scanner-disagrees-with-two-state-reference")
                r.violation(sig, f"text={text!r}: extract(text)={got} but extract(reference-filtered text {ref!r})={want}",
                            text=text)
            elif by_construction and join == " " and got[0] == "ok":
                lic, cop, con = ref_tags(toks)
                r.validated += 1
                if (set(got[1]), set(got[2]), set(got[3])) != (lic, cop, con):
                    r.violation("tags-differ-from-construction",
                                f"text={text!r}: extracted {got[1:]} but the tags outside blocks are {sorted(lic)}, {sorted(cop)}, {sorted(con)}",
                                text=text)
    r.outcome = str(outs[0])
    if has_s:
        r.tags.append("has-start")
    if "SE" in toks.replace("N", "").replace("W", "") or ("S" in toks and "E" in toks[toks.index("S"):]):
        r.tags.append("closed-block")
    return r


def vacuity(st) -> str | None:
    if st.tags.get("cli", 0) < 10:
        return "CLI slice did not run"
    if st.tags.get("closed-block", 0) < 10:
        return "no sequences with a closed ignore block"
    if len(st.outcomes) < 5:
        return f"only {len(st.outcomes)} distinct outcomes"
    return None


def run(tier: str, seed: int) -> int:
    t0 = time.time()
    st = explore(MODULE, tier, seed)
    return finish(
        ID, "model_checking", MODULE, tier, seed, st, t0,
        rule=("complete enumeration of token sequences over {S,E,L,C,K,W,N} up to max_len, each rendered "
              "4 ways (join ' ' / '', bare / '# '-prefixed); a case is non-trivial when it contains a start "
              "marker and at least one tag; states = distinct token sequences, transitions = extend-by-one-token "
              "edges, traces_validated = reference-scanner predictions compared with the real extract_reuse_info"),
        bounds=bounds(tier, seed),
        assumptions=["the tag grammar itself is exercised by C02; here the real tag reader is used on both sides of the differential oracle",
                     "text spliced from the two sides of a block is judged as the concatenation (the statement does not say otherwise)"],
        vacuity=vacuity,
    )
