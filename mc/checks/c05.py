"""C05 — REUSE.toml path globs denote exactly the specified language.

E4 + E1: for every glob over {a . / * \\} up to a bounded length the regular
expression the real code compiles is turned into an automaton; its product
with the reference automata (narrow / wide reading) is explored completely, so
the path quantifier is unbounded.  The automaton is bound to the code by
replaying every path up to length 3 (5 for a seed-selected slice) on the real
``AnnotationsItem.matches`` and every counterexample on ``matches`` and on a
real REUSE.toml + file through ``reuse lint``.
"""

from __future__ import annotations

import itertools
import json
import time

from .. import automata as au
from ..core import HarnessError, R, explore, finish, fresh_dir
from ..refmodel import globlang

ID = "C05"
MODULE = "mc.checks.c05"
SIGMA_G = ["a", ".", "/", "*", "\\"]


class RealPath:
    """DFA of realistic relative paths: non-empty segments separated by single
    '/', no segment equal to '.' or '..'.  Paths of real files always have
    this shape, so the comparison is restricted to it."""

    initial = 0

    @staticmethod
    def step(s, ch):
        if s == 4:
            return 4
        if ch == "/":
            return 0 if s == 3 else 4
        if ch == ".":
            return {0: 1, 1: 2, 2: 3, 3: 3}[s]
        return 3

    @staticmethod
    def accepting(s):
        return s == 3


def included_real(A: au.Lang, B: au.Lang, sigma, stats):
    """Shortest realistic path accepted by A and rejected by B (complete
    exploration of the reachable triple product), or None."""
    from collections import deque

    start = (A.initial, B.initial, 0)
    seen = {start: None}
    dq = deque([start])
    ntrans = 0
    found = None
    while dq:
        cur = dq.popleft()
        sa, sb, sr = cur
        if sr == 3 and A.accepting(sa) and not B.accepting(sb):
            found = cur
            break
        for ch in sigma:
            nr = RealPath.step(sr, ch)
            ntrans += 1
            if nr == 4:
                continue
            na = A.step(sa, ch)
            if not na:
                continue
            nb = B.step(sb, ch)
            nxt = (na, nb, nr)
            if nxt not in seen:
                seen[nxt] = (cur, ch)
                dq.append(nxt)
    stats["states"] += len(seen)
    stats["transitions"] += ntrans
    if found is None:
        return None
    word = []
    cur = found
    while seen[cur] is not None:
        cur, ch = seen[cur]
        word.append(ch)
    return "".join(reversed(word))


def well_formed(g: str) -> bool:
    return globlang.parse(g) is not None


def all_globs(maxlen: int):
    for n in range(1, maxlen + 1):
        for tup in itertools.product(SIGMA_G, repeat=n):
            g = "".join(tup)
            if well_formed(g):
                yield g


def bounds(tier, seed):
    L = 6 if tier == "quick" else 8
    return {"glob_alphabet": SIGMA_G, "max_glob_len": L, "pair_lists_from_len": 2,
            "path_length": "unbounded (product fixed point) over realistic relative paths",
            "conformance_replay_len": 3, "deep_replay_len": 5,
            "deep_replay_slice": f"globs with index % 20 == {seed % 20}",
            "seed_slice": f"globs of length {L + 1} starting with {SIGMA_G[seed % 5]!r}" if tier == "quick" else None}


def cases(tier, seed):
    L = 6 if tier == "quick" else 8
    idx = 0
    for g in all_globs(L):
        yield {"globs": [g], "deep": idx % 20 == seed % 20}
        idx += 1
    short = list(all_globs(2))
    for a, b in itertools.combinations(short, 2):
        yield {"globs": [a, b], "deep": False}
    if tier == "quick":
        first = SIGMA_G[seed % 5]
        for tup in itertools.product(SIGMA_G, repeat=L):
            g = first + "".join(tup)
            if well_formed(g):
                yield {"globs": [g], "deep": False}
    for g in PLUMB_GLOBS:
        for loc in ("", "d/", "d/e/"):
            yield {"plumb": g, "loc": loc}


PLUMB_GLOBS = ["a", "*", "**", "*.py", "d/*", "d/**", "**/a", "**/*.py", "\\*", "\\\\", "a b", "d/e/*", "*/a",
               "e/**", "d/*/a", "**/e/*", "*/*", "a*", "*b", "b.py", "**/", "d", "d/", "./a", "e/a", "**/d/**",
               "\\a", "*\\*", "**.py", "d/**/b.py", "d/d/../a",
               "d**", "d**.py", "**b.py", "e**/a", "d**/a", "d/e**", "*/e/**", "a**",
               ".a", ".d/**", "..a", ".*", "*/.a", "**/.a", ".d/.a", ".e/a", "e/a"]
PLUMB_NAMES = ["a", "b.py", "*", "\\", "a b"]
PLUMB_DIRS = ["", "d/", "e/", "d/e/", "d/d/", "dd/", "d2/", "d-e/", "d/e2/"]   # incl. siblings whose name extends the REUSE.toml directory's name
PLUMB_EXTRA = ["da", "d.py", "d/ea",
               # names that begin with dots (and their dot-less twins)
               ".a", "d/.a", ".d/a", "..a", "d/..a", ".d/.a", "d/e/.a", "d/.e/a", "d/e/a"]


def evaluate_plumb(case) -> R:
    from ..cli import run_cli
    from ..fstree import materialise

    g, loc = case["plumb"], case["loc"]
    r = R()
    root = fresh_dir("c05p")
    toml = "version = 1\n\n[[annotations]]\npath = %s\nprecedence = \"override\"\n" % json.dumps(g)
    toml += 'SPDX-FileCopyrightText = "2020 Toml"\nSPDX-License-Identifier = "MIT"\n'
    recipe = {loc + "REUSE.toml": toml, "LICENSES/MIT.txt": "text\n"}
    files = [d + n for d in PLUMB_DIRS for n in PLUMB_NAMES] + PLUMB_EXTRA
    for f in files:
        recipe[f] = "x = 1\n"
    materialise(root, recipe)
    out = run_cli(["--root", str(root), "--no-multiprocessing", "lint", "--json"])
    if out.exit_code not in (0, 1) or out.exc:
        raise HarnessError(f"lint failed on plumbing tree: {out.brief()}")
    data = json.loads(out.stdout)
    got = {f["path"]: any(c["source_type"] == "reuse-toml" for c in f["copyrights"]) for f in data["files"]}
    N = au.Lang(globlang.build(g, wide=False), "fullmatch")
    W = au.Lang(globlang.build(g, wide=True), "fullmatch")
    r.validated = 0
    nmatch = 0
    for f in files:
        if f not in got:
            raise HarnessError(f"{f!r} missing from lint output")
        rel = f[len(loc):] if f.startswith(loc) else None
        lo = rel is not None and N.accepts(rel)
        hi = rel is not None and W.accepts(rel)
        r.validated += 1
        nmatch += got[f]
        if got[f] and not hi:
            r.violation(f"plumbing-overmatched:{g}:{loc}", f"REUSE.toml in {loc or './'} with path={g!r} is applied to {f!r} (relative {rel!r})")
        if not got[f] and lo:
            r.violation(f"plumbing-missed:{g}:{loc}", f"REUSE.toml in {loc or './'} with path={g!r} is not applied to {f!r} (relative {rel!r})")
    r.transitions = len(files)
    r.outcome = f"plumb-matched-{min(nmatch, 3)}"
    r.nontrivial = nmatch > 0
    r.tags.append("plumb")
    return r


_WORDS: dict = {}


def _words(sigma, n):
    key = (tuple(sigma), n)
    if key not in _WORDS:
        _WORDS[key] = list(au.words(sigma, n))
    return _WORDS[key]


def impl_lang(globs, sigma_hint=None):
    from reuse.global_licensing import AnnotationsItem

    item = AnnotationsItem(paths=list(globs))
    rx = item._paths_regex
    nfa = au.from_regex(rx.pattern, rx.flags & ~32)  # 32 = re.UNICODE default
    return item, nfa


def _direction_fails(globs, stats=None):
    """Returns (failures, replayed) where failures is a list of
    (direction, witness) for the glob list; the extracted automaton is
    validated against matches()."""
    st = stats if stats is not None else {"states": 0, "transitions": 0}
    item, nfa = impl_lang(globs)
    narrow = globlang.build_alt(list(globs), wide=False)
    wide = globlang.build_alt(list(globs), wide=True)
    sigma = au.sigma_for(nfa, narrow, wide, extra=SIGMA_G)
    # which acceptance does matches() use?  find a word on which the two
    # hypotheses differ and ask the real code
    A = au.Lang(nfa, "match")
    B = au.Lang(nfa, "fullmatch")
    w = au.included(A, B, sigma)
    impl = B if (w is None or not item.matches(w)) else A
    N = au.Lang(narrow, "fullmatch")
    W = au.Lang(wide, "fullmatch")
    fails = []
    w1 = included_real(N, impl, sigma, st)
    if w1 is not None:
        fails.append(("missed", w1))
    w2 = included_real(impl, W, sigma, st)
    if w2 is not None:
        fails.append(("overmatched", w2))
    # uniformity: whichever reading of '**/' the implementation follows for a leading '**/' (probed on the real
    # matches()), it has to follow at every segment position
    if not fails:
        if zero_dir_policy():
            U = au.Lang(globlang.build_alt(list(globs), wide=True, unescaped_slash_only=True), "fullmatch")
            w3 = included_real(U, impl, sigma, st)
            if w3 is not None:
                fails.append(("missed-under-its-own-zero-directory-reading", w3))
        else:
            w3 = included_real(impl, N, sigma, st)
            if w3 is not None:
                fails.append(("overmatched-under-its-own-strict-reading", w3))
    return item, impl, sigma, fails, (N, W)


_POLICY: dict = {}


def zero_dir_policy() -> bool:
    """Does the implementation let a leading '**/' stand for zero directories?"""
    if "v" not in _POLICY:
        from reuse.global_licensing import AnnotationsItem

        _POLICY["v"] = bool(AnnotationsItem(paths=["**/a"]).matches("a"))
    return _POLICY["v"]


_MIN_CACHE: dict = {}


def minimal_failing(glob: str, direction: str) -> str:
    """Shortest contiguous well-formed sub-glob failing in the same direction
    (signature class of a violation)."""
    key = (glob, direction)
    if key in _MIN_CACHE:
        return _MIN_CACHE[key]
    n = len(glob)
    res = glob
    done = False
    for ln in range(1, n):
        for i in range(0, n - ln + 1):
            sub = glob[i:i + ln]
            if not well_formed(sub):
                continue
            # a sub-glob must not start in the middle of an escape
            if i > 0 and globlang.parse(glob[:i]) is None:
                continue
            try:
                fails = _direction_fails([sub])[3]
            except HarnessError:
                continue
            if any(d == direction for d, _w in fails):
                res = sub
                done = True
                break
        if done:
            break
    _MIN_CACHE[key] = res
    return res


def lint_confirms(globs, path: str) -> bool:
    """Does the real CLI attribute the annotation to file *path*?"""
    from ..cli import run_cli
    from ..fstree import materialise

    root = fresh_dir("c05")
    toml = "version = 1\n\n[[annotations]]\npath = %s\nprecedence = \"override\"\n" % json.dumps(list(globs))
    toml += 'SPDX-FileCopyrightText = "2020 Toml"\nSPDX-License-Identifier = "MIT"\n'
    materialise(root, {"REUSE.toml": toml, path: "x = 1\n", "LICENSES/MIT.txt": "text\n"})
    out = run_cli(["--root", str(root), "--no-multiprocessing", "lint", "--json"])
    data = json.loads(out.stdout)
    for f in data["files"]:
        if f["path"] == path:
            return any(c["source_type"] == "reuse-toml" for c in f["copyrights"])
    raise HarnessError(f"file {path!r} not in lint output for globs {globs}: {out.stdout[:300]}")


def _real(w: str) -> bool:
    s = 0
    for ch in w:
        s = RealPath.step(s, ch)
        if s == 4:
            return False
    return s == 3


def bounded_fallback(case, item, sigma, N, W, diverged) -> R:
    globs = case["globs"]
    r = R()
    r.notes.append("bounded-fallback(matches() is not the compiled regex)")
    r.tags.append("fallback")
    r.validated = 0
    for w in _words(sigma, 5):
        if not _real(w):
            continue
        r.validated += 1
        got = item.matches(w)
        if got and not W.accepts(w):
            direction = "overmatched"
        elif not got and N.accepts(w):
            direction = "missed"
        else:
            continue
        on_disk = lint_confirms(globs, w)
        if on_disk != got:
            raise HarnessError(f"fallback: lint disagrees with matches() on {globs} {w!r}")
        nl = "+newline" if "\n" in w else ""
        want = "must match (narrowest reading)" if direction == "missed" else "must not match (widest reading)"
        r.violation(f"{direction}{nl}:matches()-differs-from-its-regex",
                    f"glob {globs!r}: path {w!r} {want}, but matches() and lint say {got} (the compiled regex alone disagrees with matches() on {diverged!r})",
                    witness=w)
        break
    r.outcome = "fallback-viol" if r.viol else "fallback-ok"
    return r


def evaluate(case) -> R:
    if "plumb" in case:
        return evaluate_plumb(case)
    globs = case["globs"]
    r = R()
    st = {"states": 0, "transitions": 0}
    item, impl, sigma, fails, (N, W) = _direction_fails(globs, st)
    r.states = 0
    r.state_keys = [globs]
    r.transitions = st["transitions"]
    r.notes.append("acceptance=" + impl.mode)
    # bind the model to the code: replay every short path on the real matches()
    depth = 5 if case.get("deep") else 3
    n = 0
    diverged = None
    for w in _words(sigma, depth):
        n += 1
        if impl.accepts(w) != item.matches(w):
            diverged = w
            break
    if diverged is not None:
        # matches() is not (only) the compiled regex: the automaton is not a
        # model of the code.  Fall back to bounded exhaustive enumeration of
        # realistic paths directly on the real matches() (claim becomes bounded).
        return bounded_fallback(case, item, sigma, N, W, diverged)
    r.validated = n
    r.evals = 1
    r.nontrivial = any("*" in g or "\\" in g for g in globs)
    differs = included_real(W, N, sigma, {"states": 0, "transitions": 0}) is not None
    if differs:
        r.tags.append("narrow!=wide")
    r.outcome = ("fail:" + ",".join(d for d, _ in fails)) if fails else ("ok-sandwich" if differs else "ok-exact")
    r.counters = {"product_states": st["states"], "product_transitions": st["transitions"]}
    for direction, w in fails:
        if item.matches(w) != direction.startswith("overmatched"):
            raise HarnessError(f"counterexample {w!r} for {globs} not confirmed by matches()")
        on_disk = lint_confirms(globs, w)
        r.validated += 1
        if on_disk != direction.startswith("overmatched"):
            raise HarnessError(f"counterexample {w!r} for {globs}: lint disagrees with matches()")
        sub = minimal_failing(globs[0], direction) if len(globs) == 1 else "|".join(globs)
        nl = "+newline" if "\n" in w else ""
        want = {"missed": "must match (narrowest reading)", "overmatched": "must not match (widest reading)"}.get(
            direction, "is treated differently from the same '**/' at the start of a glob")
        r.violation(f"{direction}{nl}:{sub}",
                    f"glob {globs!r}: path {w!r} {want}, but matches() and lint say {item.matches(w)}",
                    witness=w)
    return r


def vacuity(st):
    if st.tags.get("narrow!=wide", 0) < 1:
        return "no glob for which narrow != wide"
    if len(st.outcomes) < 2:
        return "fewer than 2 outcomes"
    if st.tags.get("plumb", 0) < 10:
        return "CLI plumbing slice did not run"
    return None


def run(tier, seed):
    t0 = time.time()
    n_self = au.selftest()  # the automaton construction against Python's own matcher (independent of reuse)
    st = explore(MODULE, tier, seed)
    st.extra["automaton_selftest_comparisons"] = n_self
    return finish(
        ID, "model_checking", MODULE, tier, seed, st, t0,
        rule=("every well-formed glob over {a . / * \\} up to max_glob_len and every unordered pair of globs of length <= 2; "
              "per glob the impl regex automaton x reference automata product is explored to a fixed point over realistic "
              "relative paths (unbounded length); non-trivial = contains '*' or '\\'; states = distinct glob lists, "
              "transitions = product transitions taken; traces_validated = (glob, path) pairs replayed on the real "
              "AnnotationsItem.matches plus counterexamples replayed through `reuse lint`"),
        bounds=bounds(tier, seed),
        assumptions=["Python's backtracking matcher accepts iff the NFA has an accepting run (no back-references / look-around in the compiled pattern; anything else raises HarnessGap)",
                     "paths compared are realistic relative paths (non-empty segments, no '.'/'..' segment); characters outside the symbolic alphabet behave like the fresh letter",
                     "a glob ending in a dangling backslash is unspecified and excluded"],
        vacuity=vacuity,
        extra_cov={"states": st.counters.get("product_states", 0), "glob_lists": len(st.state_hashes)},
    )
