"""C07 — what annotate writes, the linter reads back.

E1 in four complete sub-products: S1 every file type x line mode x value set x
prior content; S2 every --style x line mode x prefix x year option x holder;
S3 templates x target variant x style; S4 hostile tokens (every comment token
of any style inside / at the end of holder and contributor) x style x mode.
Oracle: exit 0 => read-back (lint --json; contributors via the tool's reader)
== prior information U requested information; exit != 0 => bytes unchanged and
no success line.
"""
from __future__ import annotations

import datetime
import itertools
import time

from .. import annot
from ..core import HarnessError, R, explore, finish, fresh_dir
from ..fstree import materialise, read_tree
from ..lintutil import PNG_HEX
from ..refmodel import copyright as cref
from .c10 import PREFIXES, YEAROPTS, _mode_args, line_marker

ID = "C07"
MODULE = "mc.checks.c07"
HOLDERS = ["Jane Doe", "Jane Doe <jane@example.com>", "Müller & Söhne GmbH", "Acme, Inc. (\"ACME\") 100%"]
PRIORS = ["empty", "code", "foreign-header", "binary-looking", "ignore-block-top", "ignore-block-after-code", "unparseable-tag", "ignore-block-below-header"]
TARGETS = ["in-file", "force-dot-license", "fallback-dot-license", "binary", "uncommentable"]
S3_STYLES = ["python", "c", "html", "cpp", "jinja", "lisp"]
S3_TEMPLATES = [None, "full", "nocontrib", "nolicence", "nocopyright", "nothing", "hash.commented", "nolicence.commented", "nothing.commented"]


def all_tokens():
    """Every distinct comment token of any style plus the reader's special
    endings (taken from the code's tables at run time)."""
    from reuse.comment import _all_style_classes

    toks = []
    for cls in _all_style_classes():
        for t in (cls.SINGLE_LINE, cls.MULTI_LINE.start, cls.MULTI_LINE.middle, cls.MULTI_LINE.end):
            t = t.strip()
            if t and t not in toks:
                toks.append(t)
    for t in ('">', "'>", '" />', "] ::", "]::"):
        if t not in toks:
            toks.append(t)
    return toks


def bounds(tier, seed):
    return {"file_types": len(annot.file_types()), "styles": len(annot.styles()), "tokens": len(all_tokens()),
            "holders": HOLDERS, "priors": PRIORS, "targets": TARGETS, "templates": S3_TEMPLATES,
            "prefixes": "all 10" if tier == "thorough" else "default + 3 rotated by seed",
            "S4_positions": ["end", "middle"] if tier == "thorough" else "end for all tokens; middle for the style's own tokens"}


def cases(tier, seed):
    for name, _cls in annot.file_types():
        for mode in ("default", "single", "multi"):
            for vals in ("plain", "hostile"):
                for prior in PRIORS:
                    yield {"k": "S1", "name": name, "mode": mode, "vals": vals, "prior": prior}
    prefixes = PREFIXES if tier == "thorough" else [None] + [PREFIXES[(seed + 1 + i * 3) % 10] for i in range(3)]
    for st in annot.styles():
        for mode in ("default", "single", "multi"):
            for p in prefixes:
                for y in list(YEAROPTS) + ["default-year"]:
                    for h in range(len(HOLDERS)):
                        yield {"k": "S2", "style": st, "mode": mode, "prefix": p, "year": y, "h": h}
    for tpl in S3_TEMPLATES:
        for target in TARGETS:
            for st in S3_STYLES:
                yield {"k": "S3", "tpl": tpl, "target": target, "style": st}
    names = list(S5_FILES)
    for n in (1, 2, 3, 4, 5):
        for comb in itertools.combinations(names, n):
            for variant in range(len(S5_VARIANTS)):
                for rec in (False, True):
                    yield {"k": "S5", "args": list(comb), "rec": rec, "variant": variant}
                    if n == 2:
                        yield {"k": "S5", "args": list(reversed(comb)), "rec": rec, "variant": variant}
    for rec_arg in (".", "sub", "sub/.."):
        yield {"k": "S5", "args": [rec_arg], "rec": True}
    toks = all_tokens()
    styles = annot.styles()
    for st, cls in styles.items():
        own = {t.strip() for t in (cls.SINGLE_LINE, cls.MULTI_LINE.start, cls.MULTI_LINE.middle, cls.MULTI_LINE.end) if t.strip()}
        for mode in ("single", "multi"):
            for ti, t in enumerate(toks):
                for pos in ("end", "middle"):
                    if tier == "quick" and pos == "middle" and t not in own:
                        continue
                    for field in ("holder", "contributor"):
                        yield {"k": "S4", "style": st, "mode": mode, "tok": ti, "pos": pos, "field": field}


S5_FILES = {
    "a.py": ("# SPDX-FileCopyrightText: 2001 Ann\n# SPDX-License-Identifier: ISC\n\nx = 1\n", ["SPDX-FileCopyrightText: 2001 Ann"], ["ISC"], None),
    "sub/b.c": ("/*\n * SPDX-FileCopyrightText: 2002 Bob\n * SPDX-License-Identifier: Zlib\n */\n\nint x;\n", ["SPDX-FileCopyrightText: 2002 Bob"], ["Zlib"], None),
    "sub/c.html": ("<p>x</p>\n", [], [], None),
    "e.py": ("# SPDX-FileCopyrightText: 2020 Jane Doe\n# SPDX-License-Identifier: MIT\n\ny = 2\n", ["SPDX-FileCopyrightText: 2020 Jane Doe"], ["MIT"], None),
    "d.txt": ("# SPDX-FileCopyrightText: 1999 Hidden\n# SPDX-License-Identifier: X11\ntext\n", ["SPDX-FileCopyrightText: 2003 Dee"], ["0BSD"],
              "SPDX-FileCopyrightText: 2003 Dee\nSPDX-License-Identifier: 0BSD\n"),
}


S5_VARIANTS = [{}, {"a.py": "m.py", "sub/b.c": "sub/n.c", "sub/c.html": "sub/o.html", "e.py": "q.py", "d.txt": "p.txt"},
               {"a.py": "z.py", "sub/b.c": "sub/y.c", "sub/c.html": "sub/x.html", "e.py": "v.py", "d.txt": "w.txt"},
               {"a.py": "k1.py", "sub/b.c": "sub/k2.c", "sub/c.html": "sub/k3.html", "e.py": "k0.py", "d.txt": "k4.txt"}]


def ev_S5(c) -> R:
    """One invocation over several files with different prior information
    (one of them shadowed by an existing .license sibling, one already holding
    the requested notice).  Arguments are relative to cwd = root, so the order
    in which the tool walks its *set* of paths depends on the names only;
    several naming variants make different processing orders occur."""
    from ..cli import run_cli

    r = R()
    ren = S5_VARIANTS[c.get("variant", 0)]
    nm = lambda n: ren.get(n, n)
    root = fresh_dir("c07")
    recipe = {}
    for name, (text, _pc, _pl, sib) in S5_FILES.items():
        recipe[nm(name)] = text
        if sib:
            recipe[nm(name) + ".license"] = sib
    materialise(root, recipe)
    before = read_tree(root)
    argv = ["--copyright", "Jane Doe", "--license", "MIT", "--year", "2020"] + (["--recursive"] if c["rec"] else [])
    args = [a if a in (".", "sub", "sub/..") else nm(a) for a in c["args"]]
    res = run_cli(["annotate", *argv, *args], cwd=str(root))
    touched = set(c["args"])
    if c["args"] == ["."] or c["args"] == ["sub/.."]:
        touched = set(S5_FILES)
    elif c["args"] == ["sub"]:
        touched = {n for n in S5_FILES if n.startswith("sub/")}
    label = f"annotate {'-r ' if c['rec'] else ''}{args}"
    if res.exc or res.exit_code != 0:
        r.violation(f"S5-failed|rec={c['rec']}", f"{label}: {res.brief()}")
        return r
    after = read_tree(root)
    order = [l.rsplit(" ", 1)[-1] for l in res.stdout.splitlines() if l.startswith("Successfully")]
    for name, (text, pc, pl, sib) in S5_FILES.items():
        info = annot.lint_file_info(root, nm(name))
        want_c, want_l = list(pc), list(pl)
        if name in touched:
            want_c = sorted(set(want_c) | {"SPDX-FileCopyrightText: 2020 Jane Doe"})
            want_l = sorted(set(want_l) | {"MIT"})
        if info is None or sorted(info[0]) != sorted(want_c) or sorted(info[1]) != sorted(want_l):
            r.violation(f"S5-readback|rec={c['rec']}|{name}|{'named' if name in touched else 'not-named'}",
                        f"{label} (processed in the order {order}): {nm(name)} reads back {info}, expected copyrights {sorted(want_c)} expressions {sorted(want_l)}")
        if sib and after.get(nm(name)) != before.get(nm(name)):
            r.violation(f"S5-file-with-sibling-changed|rec={c['rec']}", f"{label}: {nm(name)} has a .license sibling but the file itself was modified")
    r.outcome = "exit0"
    r.evals = 1 + len(S5_FILES)
    r.tags.append("S5")
    if len(order) >= 2:
        r.notes.append("S5-first-processed:" + [k for k in S5_FILES if nm(k) in order[0] or order[0].endswith(nm(k))][0] if any(order[0].endswith(nm(k)) or order[0].endswith(nm(k) + ".license") for k in S5_FILES) else "S5-first:?")
    return r


def prior_text(kind, style_cls):
    """(text, prior copyrights, prior expressions)"""
    if kind == "empty":
        return "", [], []
    if kind == "code":
        return "first line of content\nsecond line\n", [], []
    if kind == "ignore-block-below-header":
        # the file's own header, and directly below it (no blank line) a comment that opens an ignore block around a quoted tag
        try:
            head = style_cls.create_comment("SPDX-FileCopyrightText: 2001 Old Holder\nSPDX-License-Identifier: ISC")
            start, end = style_cls.create_comment("REUSE-IgnoreStart"), style_cls.create_comment("REUSE-IgnoreEnd")
        except Exception:
            return "first line of content\nsecond line\n", [], []
        # (the quoted tag stands on a line of its own, as in a here-document: were the block opened, it would parse)
        text = head + "\n" + start + "\ncat <<EOF\nSPDX-License-Identifier: Zlib\nEOF\n" + end + "\nlast line\n"
        return text, ["SPDX-FileCopyrightText: 2001 Old Holder"], ["ISC"]
    if kind == "unparseable-tag":
        # the slash notation many Rust crates use: not an SPDX expression, so the linter cannot read the file at all
        try:
            block = style_cls.create_comment("SPDX-License-Identifier: MIT/Apache-2.0")
        except Exception:
            return "first line of content\nsecond line\n", [], []
        return block + "\n\nfirst line of content\n", [], []
    if kind.startswith("ignore-block"):
        # a comment of the file's own style that shows a tag inside an ignore block: it declares nothing, and must not swallow the new header
        try:
            block = style_cls.create_comment("REUSE-IgnoreStart\nSPDX-License-Identifier: Zlib\nREUSE-IgnoreEnd")
        except Exception:
            return "first line of content\nsecond line\n", [], []
        if kind == "ignore-block-top":
            return block + "\nfirst line of content\n", [], []
        return "first line of content\n" + block + "\nsecond line\n", [], []
    if kind == "binary-looking":
        # valid UTF-8 that a content sniffer takes for binary data
        return "blob = '" + "\0" * 600 + "'\n", [], []
    # a header in a style that is foreign to (almost) every file type: tags on
    # bare lines framed by a custom box; lint reads them, annotate cannot parse it
    text = "=== SPDX-FileCopyrightText: 2001 Old Holder\n=== SPDX-License-Identifier: ISC\n\nfirst line of content\n"
    return text, ["SPDX-FileCopyrightText: 2001 Old Holder"], ["ISC"]


def judge(r: R, root, rel, before, res, want_c, want_l, want_k, check_contrib, sig, label):
    """Common oracle.  *before* is the tree content before the command."""
    after = read_tree(root)
    if res.exc:
        r.violation(f"crash|{sig}", f"{label}: annotate raised {res.exc_repr}")
        return
    if res.exit_code != 0:
        if after != before:
            changed = sorted(k for k in set(after) | set(before) if after.get(k) != before.get(k))
            r.violation(f"failed-but-changed|{sig}", f"{label}: exit {res.exit_code} but the tree changed: {changed}")
        if "Successfully changed header" in res.stdout:
            r.violation(f"failed-but-says-success|{sig}", f"{label}: exit {res.exit_code} and a success line")
        r.outcome = f"exit{res.exit_code}"
        r.nontrivial = False
        return
    info = annot.lint_file_info(root, rel)
    if info is None:
        raise HarnessError(f"{rel} not in lint output")
    got_c, got_l, sources = info
    holder = None
    for src in sources:
        pass
    text = None
    for cand in (rel + ".license", rel):
        if cand in after and (cand.endswith(".license") or rel + ".license" not in after):
            text = after[cand].decode("utf-8", "replace")
            break
    got_k = annot.contributors_of(text if text is not None else "")
    problems = []
    if sorted(set(got_c)) != sorted(set(want_c)):
        lost = sorted(set(want_c) - set(got_c))
        extra = sorted(set(got_c) - set(want_c))
        problems.append(("copyright", f"copyrights read back {got_c}, expected {sorted(want_c)} (lost {lost}, extra {extra})"))
    if sorted(set(got_l)) != sorted(set(want_l)):
        problems.append(("licence", f"expressions read back {got_l}, expected {sorted(want_l)}"))
    if check_contrib and sorted(set(got_k)) != sorted(set(want_k)):
        problems.append(("contributor", f"contributors read back {got_k}, expected {sorted(want_k)}"))
    for kind, msg in problems:
        r.violation(f"{kind}-readback|{sig}", f"{label}: annotate reported success but {msg}; file now {text!r}")
    r.outcome = "exit0"


def default_years():
    y = datetime.date.today().year
    return [str(y)]


def ev_S1(c) -> R:
    from reuse.comment import get_comment_style

    r = R()
    name = c["name"]
    cls = get_comment_style(name)
    if cls is None:
        r.outcome, r.nontrivial = "table-entry-unreachable", False
        return r
    from reuse.comment import UncommentableCommentStyle

    if name.endswith(".license"):
        r.outcome, r.nontrivial = "n/a", False  # a .license file is not a covered file
        return r
    uncommentable = cls is UncommentableCommentStyle
    nomodes = not (cls.can_handle_single() or cls.can_handle_multi())
    if nomodes and c["mode"] != "default":
        r.outcome, r.nontrivial = "n/a", False
        return r
    if not uncommentable and not nomodes and ((c["mode"] == "single" and not cls.can_handle_single()) or (c["mode"] == "multi" and not cls.can_handle_multi())):
        r.outcome, r.nontrivial = "mode-unsupported", False
        return r
    if uncommentable and (c["mode"] != "default" or c["prior"] == "empty"):
        # an empty file is not a covered file: nothing to read back through lint
        r.outcome, r.nontrivial = "n/a", False
        return r
    text, pc, pl = prior_text(c["prior"], cls)
    if uncommentable and c["prior"] in ("foreign-header", "ignore-block-below-header"):
        # .license sibling replaces the file's own content: prior info is hidden by design (C04)
        pc, pl = [], []
    root = fresh_dir("c07")
    materialise(root, {name: text if text else {"empty": True}})
    if c["vals"] == "plain":
        holder, contrib, lic = "Jane Doe", "Kim Contributor", "MIT"
    else:
        holder, contrib, lic = "Müller & Söhne <m@example.com> \"Q\" 100% #1 * x", "Ki'm \"K\" <k@example.com> % * #", "GPL-3.0-or-later WITH Autoconf-exception-3.0 OR MIT"
        m = line_marker(cls, "multi" if (c["mode"] == "multi" or not cls.can_handle_single()) else "single")
        if m and contrib.endswith(m[::-1]):
            contrib += " x"
    argv = ["--copyright", holder, "--license", lic, "--contributor", contrib, "--year", "2020", *_mode_args(c["mode"])]
    before = read_tree(root)
    res = annot.annotate(root, argv, [root / name])
    want_c = pc + [cref.build("spdx", "2020", holder)]
    judge(r, root, name, before, res, want_c, pl + [lic], [contrib], True, f"S1|{cls.__name__}|{c['mode']}|{c['vals']}|{c['prior']}",
          f"file {name!r} ({cls.__name__}) mode {c['mode']} prior {c['prior']}: annotate {argv}")
    r.evals = 2
    r.tags.append("S1")
    return r


def ev_S2(c) -> R:
    r = R()
    cls = annot.styles()[c["style"]]
    if (c["mode"] == "single" and not cls.can_handle_single()) or (c["mode"] == "multi" and not cls.can_handle_multi()):
        r.outcome, r.nontrivial = "mode-unsupported", False
        return r
    root = fresh_dir("c07")
    materialise(root, {"file.unknownext": "content line\n"})
    holder = HOLDERS[c["h"]]
    argv = ["--copyright", holder, "--license", "Apache-2.0", "--contributor", "Kim", "--style", c["style"], *_mode_args(c["mode"])]
    years = None
    if c["year"] == "default-year":
        y0 = default_years()
    else:
        argv += YEAROPTS[c["year"]]
        years = {"year": "2020", "two-years": "2019 - 2021", "exclude": None}[c["year"]]
    if c["prefix"]:
        argv += ["--copyright-prefix", c["prefix"]]
    before = read_tree(root)
    res = annot.annotate(root, argv, [root / "file.unknownext"])
    if c["year"] == "default-year":
        ys = sorted(set(y0 + default_years()))
        # accept either year if the clock rolled over during the call
        info = annot.lint_file_info(root, "file.unknownext") if res.exit_code == 0 else None
        years = ys[-1] if not info or cref.build(c["prefix"] or "spdx", ys[-1], holder) in info[0] else ys[0]
    want_c = [cref.build(c["prefix"] or "spdx", years, holder)]
    judge(r, root, "file.unknownext", before, res, want_c, ["Apache-2.0"], ["Kim"], True,
          f"S2|{c['style']}|{c['mode']}|{c['prefix']}|{c['year']}", f"annotate {argv}")
    r.evals = 2
    r.tags.append("S2")
    return r


def ev_S3(c) -> R:
    r = R()
    tpl, target, st = c["tpl"], c["target"], c["style"]
    if tpl and tpl.endswith(".commented") and st != "python":
        r.outcome, r.nontrivial = "n/a", False
        return r
    root = fresh_dir("c07")
    name = {"in-file": "file.unknownext", "force-dot-license": "file.unknownext", "fallback-dot-license": "file.unknownext",
            "binary": "image.png", "uncommentable": "data.json"}[target]
    recipe = {name: {"hex": PNG_HEX} if target == "binary" else "content line\n"}
    if tpl:
        recipe.update(annot.template_recipe([tpl]))
    materialise(root, recipe)
    argv = ["--copyright", "Jane Doe", "--license", "MIT", "--contributor", "Kim", "--year", "2020"]
    if target == "in-file":
        argv += ["--style", st]
    elif target == "force-dot-license":
        argv += ["--force-dot-license"]
    elif target == "fallback-dot-license":
        argv += ["--fallback-dot-license"]
    if tpl:
        argv += ["--template", tpl]
    before = read_tree(root)
    res = annot.annotate(root, argv, [root / name])
    renders_contrib = tpl in (None, "full", "hash.commented")
    judge(r, root, name, before, res, [cref.build("spdx", "2020", "Jane Doe")], ["MIT"], ["Kim"], renders_contrib,
          f"S3|tpl={tpl}|{target}", f"template {tpl} target {target} style {st}: annotate {argv}")
    if res.exit_code == 0 and target != "in-file":
        after = read_tree(root)
        if after.get(name) != before.get(name):
            r.violation(f"S3-file-itself-changed|{target}", f"target {target}: the file itself changed although a .license is used")
    r.evals = 2
    r.tags.append("S3")
    if tpl in ("nolicence", "nocopyright", "nothing", "nolicence.commented", "nothing.commented"):
        r.tags.append("dropping-template")
    return r


def ev_S4(c) -> R:
    r = R()
    cls = annot.styles()[c["style"]]
    if (c["mode"] == "single" and not cls.can_handle_single()) or (c["mode"] == "multi" and not cls.can_handle_multi()):
        r.outcome, r.nontrivial = "mode-unsupported", False
        return r
    tok = all_tokens()[c["tok"]]
    value = f"Acme {tok}" if c["pos"] == "end" else f"Acme {tok} Corp"
    root = fresh_dir("c07")
    materialise(root, {"file.unknownext": "content line\n"})
    holder, contrib = ("Jane Doe", value) if c["field"] == "contributor" else (value, "Kim")
    argv = ["--copyright", holder, "--license", "MIT", "--contributor", contrib, "--year", "2020", "--style", c["style"], *_mode_args(c["mode"])]
    before = read_tree(root)
    res = annot.annotate(root, argv, [root / "file.unknownext"])
    m = line_marker(cls, c["mode"])
    mirrored = c["field"] == "contributor" and bool(m) and value.endswith(m[::-1])
    sig = f"S4|{c['field']}|{c['pos']}|tok={tok}"
    judge(r, root, "file.unknownext", before, res, [cref.build("spdx", "2020", holder)], ["MIT"], [contrib], True, sig,
          f"--style {c['style']} {c['mode']}: annotate {argv}")
    if mirrored:
        for v in r.viol:
            if v["signature"].startswith("contributor-readback"):
                v["signature"] = "contributor-ends-with-mirrored-line-prefix"
    r.evals = 2
    r.tags.append("S4")
    return r


_EV = {"S1": ev_S1, "S2": ev_S2, "S3": ev_S3, "S4": ev_S4, "S5": ev_S5}


def evaluate(c) -> R:
    return _EV[c["k"]](c)


def vacuity(st):
    for t in ("S1", "S2", "S3", "S4", "S5", "dropping-template"):
        if st.tags.get(t, 0) < 5:
            return f"slice {t} did not run"
    if st.outcomes.get("exit0", 0) < 1000 or st.outcomes.get("exit1", 0) < 1:
        return f"outcomes {dict(st.outcomes)}"
    return None


def run(tier, seed):
    t0 = time.time()
    st = explore(MODULE, tier, seed)
    return finish(
        ID, "model_checking", MODULE, tier, seed, st, t0,
        rule=("four complete sub-products (S1 file types x mode x values x prior content; S2 styles x mode x prefix x year x holder; S3 templates x "
              "target x style; S4 every comment token of any style in holder/contributor x style x mode); each case = one real annotate followed by "
              "`reuse lint --json` (+ the tool's reader for contributors); non-trivial = annotate reported success"),
        bounds=bounds(tier, seed),
        assumptions=["a contributor value that ends in the mirror image of its line's comment prefix is a recorded known finding (frame heuristic)",
                     "the default year is accepted as either year read before/after the call"],
        vacuity=vacuity,
    )
