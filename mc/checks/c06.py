"""C06 — licence inventory: missing, unused, bad, deprecated, extension-less.

E1, complete product: identifier class (7) x way of use (11) x way of
provision (7) = 539 trees, one `reuse lint --json` each, plus three whole-list
trees over every bundled SPDX identifier; judged by refmodel.inventory.
"""
from __future__ import annotations

import json
import time

from ..core import HarnessError, R, explore, finish, fresh_dir
from ..fstree import materialise
from ..lintutil import lint_json
from ..refmodel import inventory as inv

ID = "C06"
MODULE = "mc.checks.c06"

CLASSES = {
    "current": "MIT", "deprecated": "GPL-2.0", "deprecated-plus": "GPL-2.0+", "exception": "Autoconf-exception-3.0",
    "licenseref": "LicenseRef-x", "unknown": "Nope-1.0", "wrong-case": "mit", "wrong-case-licenseref": "licenseref-x",
}
CLASSES2 = {  # seed-rotated second representative of every class
    "current": "Apache-2.0", "deprecated": "LGPL-2.1", "deprecated-plus": "LGPL-2.1+", "exception": "Classpath-exception-2.0",
    "licenseref": "LicenseRef-My.Own-1", "unknown": "FooBar", "wrong-case": "apache-2.0", "wrong-case-licenseref": "LICENSEREF-Other.1",
}
USES = ["unused", "alone", "plus", "and", "or", "with", "paren", "two-tags", "dot-license", "reuse-toml", "dep5", "case-twin-first", "case-twin-second"]
PROVS = ["absent", "txt", "md", "noext", "subdir", "plus-txt", "txt+companion"]
HELPER = "0BSD"
EXC = "Bison-exception-2.2"
HEADER_C = "# SPDX-FileCopyrightText: 2020 Jane\n"


def bounds(tier, seed):
    return {"classes": list(CLASSES), "uses": USES, "provisions": PROVS,
            "representatives": "two representatives of each class, three for licenseref / exception / deprecated",
            "whole_list_trees": 11, "whole_list_provisions": ["txt", "md", "noext", "subdir", "plus-txt"], "spdx_identifiers": len(inv.SPDX)}


CLASSES3 = {  # third representatives where the class has members of a different shape
    "licenseref": "LicenseRef-Unknown-origin", "current": "0BSD-look-alike-not", "exception": "LLVM-exception", "deprecated": "Nunit",
}
CLASSES3.pop("current")


def cases(tier, seed):
    for ci, cls in enumerate(CLASSES):
        reps = [CLASSES[cls]]
        reps.append(CLASSES2[cls])
        if cls in CLASSES3:
            reps.append(CLASSES3[cls])
        for ident in reps:
            for u in USES:
                for p in PROVS:
                    yield {"cls": cls, "id": ident, "use": u, "prov": p}
    for mode in ("used+provided", "used-only", "provided-only"):
        yield {"whole": mode}
    for prov in ("md", "noext", "subdir", "plus-txt"):
        for mode in ("used+provided", "provided-only"):
            yield {"whole": mode, "prov": prov}
    for name in EXTRA_TREES:
        yield {"extra": name}


def expr_for(cls, ident, use):
    """(list of expression strings, identifiers used) for the target file."""
    if use in ("alone", "dot-license", "reuse-toml", "dep5", "case-twin-first", "case-twin-second"):
        return [ident], [ident]
    if use == "plus":
        return [ident + "+"], [ident + "+"]
    if use == "and":
        return [f"{HELPER} AND {ident}"], [HELPER, ident]
    if use == "or":
        return [f"{HELPER} OR {ident}"], [HELPER, ident]
    if use == "with":
        if cls == "exception":
            return [f"{HELPER} WITH {ident}"], [HELPER, ident]
        return [f"{ident} WITH {EXC}"], [ident, EXC]
    if use == "paren":
        return [f"({HELPER} AND ({ident}))"], [HELPER, ident]
    if use == "two-tags":
        return [HELPER, ident], [HELPER, ident]
    raise AssertionError(use)


def build(case):
    cls, ident, use, prov = case["cls"], case["id"], case["use"], case["prov"]
    recipe = {}
    uses = {}
    lic_files = []
    # a second, always-compliant file that uses the helper licence
    recipe["src/other.py"] = HEADER_C + f"# SPDX-License-Identifier: {HELPER}\n"
    uses["src/other.py"] = [HELPER]
    recipe[f"LICENSES/{HELPER}.txt"] = "helper text\n"
    lic_files.append(f"LICENSES/{HELPER}.txt")
    target = "src/f.py"
    if use == "unused":
        recipe[target] = HEADER_C + f"# SPDX-License-Identifier: {HELPER}\n"
        uses[target] = [HELPER]
    else:
        exprs, ids = expr_for(cls, ident, use)
        uses[target] = ids
        if EXC in ids:
            recipe[f"LICENSES/{EXC}.txt"] = "exception text\n"
            lic_files.append(f"LICENSES/{EXC}.txt")
        if use == "dot-license":
            recipe[target] = "print(1)\n"
            recipe[target + ".license"] = "SPDX-FileCopyrightText: 2020 Jane\n" + "".join(f"SPDX-License-Identifier: {e}\n" for e in exprs)
        elif use == "reuse-toml":
            recipe[target] = "print(1)\n"
            recipe["REUSE.toml"] = ("version = 1\n\n[[annotations]]\npath = \"src/f.py\"\nprecedence = \"override\"\n"
                                    "SPDX-FileCopyrightText = \"2020 Jane\"\nSPDX-License-Identifier = %s\n" % json.dumps(exprs[0]))
        elif use == "dep5":
            recipe[target] = "print(1)\n"
            recipe[".reuse/dep5"] = ("Format: https://www.debian.org/doc/packaging-manuals/copyright-format/1.0/\nUpstream-Name: x\n\n"
                                     f"Files: src/f.py\nCopyright: 2020 Jane\nLicense: {exprs[0]}\n")
        else:
            recipe[target] = HEADER_C + "".join(f"# SPDX-License-Identifier: {e}\n" for e in exprs) + "print(1)\n"
    if use.startswith("case-twin"):
        # a second file uses the same identifier in the other letter case; it sorts before / after the target
        twin = ident.swapcase() if ident.swapcase() != ident else ident.lower()
        other = "src/a_twin.py" if use.endswith("first") else "src/z_twin.py"
        recipe[other] = HEADER_C + f"# SPDX-License-Identifier: {twin}\n"
        uses[other] = [twin]
    f = None
    if prov == "txt":
        f = f"LICENSES/{ident}.txt"
    elif prov == "md":
        f = f"LICENSES/{ident}.md"
    elif prov == "noext":
        f = f"LICENSES/{ident}"
    elif prov == "subdir":
        f = f"LICENSES/sub/{ident}.txt"
    elif prov == "plus-txt":
        f = f"LICENSES/{ident}+.txt"
    elif prov == "txt+companion":
        f = f"LICENSES/{ident}.txt"
        recipe[f + ".license"] = "SPDX-FileCopyrightText: 2020 Upstream\nSPDX-License-Identifier: CC0-1.0\n"
    if f:
        recipe[f] = "licence text\n"
        lic_files.append(f)
    return recipe, uses, lic_files


# (recipe, uses, licence files) of trees that are no cell of the product
EXTRA_TREES = {
    # a regular file called LICENSES in the root (glibc ships one) is not a LICENSES/ directory
    "root-file-named-LICENSES": ({"src/f.py": HEADER_C + "# SPDX-License-Identifier: MIT\n", "LICENSES": "This file lists the licences of the bundled code.\n"},
                                 {"src/f.py": ["MIT"], "LICENSES": []}, []),
    "root-file-named-LICENSES-with-header": ({"src/f.py": HEADER_C + "# SPDX-License-Identifier: MIT\n", "LICENSES": "SPDX-FileCopyrightText: 2020 Jane\nSPDX-License-Identifier: MIT\n"},
                                             {"src/f.py": ["MIT"], "LICENSES": ["MIT"]}, []),
    # editor backups and merge left-overs next to a licence text
    "backup-files-in-LICENSES": ({"src/f.py": HEADER_C + "# SPDX-License-Identifier: MIT\n", "LICENSES/MIT.txt": "t\n", "LICENSES/README.md": "about this directory\n"},
                                 {"src/f.py": ["MIT"]}, ["LICENSES/MIT.txt", "LICENSES/README.md"]),
}


def build_whole(mode, prov="txt"):
    recipe, uses, lic_files = {}, {}, []
    ids = sorted(inv.SPDX)
    for n, ident in enumerate(ids):
        if mode != "provided-only":
            expr = f"{HELPER} WITH {ident}" if ident in inv.SPDX_EXCEPTIONS else ident
            path = f"src/f{n}.py"
            recipe[path] = HEADER_C + f"# SPDX-License-Identifier: {expr}\n"
            uses[path] = [HELPER, ident] if ident in inv.SPDX_EXCEPTIONS else [ident]
        if mode != "used-only":
            f = {"txt": f"LICENSES/{ident}.txt", "md": f"LICENSES/{ident}.md", "noext": f"LICENSES/{ident}", "subdir": f"LICENSES/sub/dir/{ident}.txt",
                 "plus-txt": f"LICENSES/{ident}+.txt"}[prov]
            recipe[f] = "t\n"
            lic_files.append(f)
    if mode == "provided-only":
        recipe["src/only.py"] = HEADER_C + f"# SPDX-License-Identifier: {HELPER}\n"
        uses["src/only.py"] = [HELPER]
    if f"LICENSES/{HELPER}.txt" not in recipe and mode == "used-only":
        pass
    return recipe, uses, lic_files


def evaluate(case) -> R:
    r = R()
    if "extra" in case:
        recipe, uses, lic_files = EXTRA_TREES[case["extra"]]
        label = "extra:" + case["extra"]
    elif "whole" in case:
        recipe, uses, lic_files = build_whole(case["whole"], case.get("prov", "txt"))
        label = "whole:" + case["whole"] + ("|" + case["prov"] if case.get("prov") else "")
    else:
        recipe, uses, lic_files = build(case)
        label = f"{case['cls']}|{case['use']}|{case['prov']}"
    root = fresh_dir("c06")
    materialise(root, recipe)
    out, data = lint_json(root)
    if data is None:
        if out.exc is None and out.exit_code == 2:
            # every tree built here is a valid project: a usage/configuration error is the tool misreading LICENSES/
            r.violation(f"lint-refuses-tree|{label}", f"tree {label}: lint refuses the project: {out.stderr[-300:]!r}")
            r.outcome = "refused"
            if "whole" in case:
                r.tags.append("whole-list")
            return r
        raise HarnessError(f"lint failed for {label}: {out.brief()}")
    want = inv.inventory(uses, lic_files)
    got = inv.observed(data, root)
    bad_cats = [k for k in want if want[k] != got[k]]
    for k in bad_cats:
        r.violation(f"{k}|{label}" if "whole" not in case else f"{k}|{label}",
                    f"tree {label} (identifier {case.get('id')!r}): lint reports {k}={got[k]!r}, the inventory model gives {want[k]!r}",
                    recipe={p: (v if isinstance(v, str) else "<bytes>") for p, v in list(recipe.items())[:12]})
    r.outcome = "|".join(k for k in ("missing_licenses", "bad_licenses", "unused_licenses", "deprecated_licenses", "licenses_without_extension") if got[k]) or "clean"
    r.nontrivial = bool(r.outcome != "clean")
    r.evals = 1
    if "whole" in case:
        r.tags.append("whole-list")
        r.transitions = len(inv.SPDX)
    return r


def vacuity(st):
    if st.tags.get("whole-list", 0) < 3:
        return "whole-list trees missing"
    if len(st.outcomes) < 8:
        return f"only {len(st.outcomes)} distinct outcome classes"
    return None


def run(tier, seed):
    t0 = time.time()
    st = explore(MODULE, tier, seed)
    return finish(
        ID, "model_checking", MODULE, tier, seed, st, t0,
        rule=("complete product identifier class x way of use x way of provision, one real `reuse lint --json` per tree, all five inventory "
              "categories and summary.used_licenses compared with refmodel.inventory; plus eleven trees over the whole bundled SPDX list (used and/or provided, five ways of provision); "
              "non-trivial = lint reports at least one inventory category"),
        bounds=bounds(tier, seed),
        assumptions=["the identifier of a LICENSES/ file is its name minus the last extension (whole name if that is an SPDX identifier)",
                     "SPDX data files bundled with reuse are the authority for 'on the SPDX list' and 'deprecated'"],
        vacuity=vacuity,
    )
