"""C01 — lint verdict equals compliance with the REUSE specification.

E1 over a defect lattice: six compliant-by-construction base trees (each with
and without a Git repository) x every set of injected defects up to a size
bound (14 atomic defects, one or more per clause of the statement).  The
expected exit status and, per category, the exact set of offenders come from
the abstract project description (refmodel.verdict), never from the files.
"""
from __future__ import annotations

import os
import time

from .. import gitrepo, projects
from ..core import HarnessError, R, explore, finish, fresh_dir
from ..envctl import FaultPlan, faulty_open
from ..fstree import materialise
from ..lintutil import lint_json
from ..refmodel import verdict

ID = "C01"
MODULE = "mc.checks.c01"


def bounds(tier, seed):
    return {"bases": projects.BASE_NAMES, "git": [False, True], "defects": projects.DEFECTS,
            "max_defects": 3 if tier == "quick" else 5,
            "seed_slice": f"all 4-defect sets on base {projects.BASE_NAMES[seed % len(projects.BASES)]} (no git)" if tier == "quick" else None}


def cases(tier, seed):
    n = 3 if tier == "quick" else 5
    for b in range(len(projects.BASES)):
        for git in (False, True):
            for ds in projects.defect_sets(n):
                yield {"base": b, "git": git, "defects": ds}
    if tier == "quick":
        b = seed % len(projects.BASES)
        for ds in projects.defect_sets(4):
            if len(ds) == 4:
                yield {"base": b, "git": False, "defects": ds}


def build(case, dirname="c01"):
    proj = projects.BASES[case["base"]]()
    proj, unreadable = projects.apply_defects(proj, case["defects"])
    root = fresh_dir(dirname)
    materialise(root, projects.render_with_clutter(proj))
    if case.get("git"):
        gitrepo.init(root)
    bad = set()
    for u in unreadable:
        bad.add(str(root / u))
        bad.add(str(root / u) + ".license")
    return proj, unreadable, root, bad


def evaluate(case) -> R:
    r = R()
    proj, unreadable, root, bad = build(case)
    exp = verdict.expected(proj, unreadable)
    plan = FaultPlan(lambda p: p in bad)
    with faulty_open(plan):
        out, data = lint_json(root)
    if data is None:
        r.violation("lint-did-not-produce-a-report|" + "+".join(case["defects"]),
                    f"base {proj['name']} defects {case['defects']}: {out.brief()}")
        return r
    if unreadable and plan.fired == 0:
        raise HarnessError("fault plan never fired")
    got = verdict.observed(data, root)
    label = "+".join(case["defects"]) or "none"
    for cat, want in exp["categories"].items():
        if got[cat] != want:
            r.violation(f"{cat}|{label}",
                        f"base {proj['name']}{' (git)' if case.get('git') else ''}, defects [{label}]: lint reports {cat}={got[cat]!r}, specification model gives {want!r}")
    want_exit = 0 if exp["compliant"] else 1
    if out.exit_code != want_exit:
        r.violation(f"exit-status|{label}", f"base {proj['name']}, defects [{label}]: exit status {out.exit_code}, expected {want_exit}")
    if data["summary"]["compliant"] != exp["compliant"]:
        r.violation(f"summary.compliant|{label}", f"summary.compliant={data['summary']['compliant']} but expected {exp['compliant']}")
    files = sorted(f["path"] for f in data["files"])
    if files != exp["files"]:
        r.violation(f"files|{label}", f"base {proj['name']}: files[] = {files}, expected {exp['files']}")
    r.outcome = "compliant" if out.exit_code == 0 else "|".join(k for k, v in got.items() if v)
    r.nontrivial = bool(case["defects"])
    r.tags.append("exit-%d" % out.exit_code)
    return r


def vacuity(st):
    if not st.tags.get("exit-0") or not st.tags.get("exit-1"):
        return f"exit statuses seen: {dict(st.tags)}"
    if len(st.outcomes) < 10:
        return f"only {len(st.outcomes)} distinct outcome classes"
    return None


def run(tier, seed):
    t0 = time.time()
    st = explore(MODULE, tier, seed)
    return finish(
        ID, "model_checking", MODULE, tier, seed, st, t0,
        rule=("complete lattice of defect sets (size <= max_defects, at most one of the five defects that act on the same file) over 6 "
              "compliant-by-construction base trees x {no VCS, Git}; one real `reuse lint --json` per state; every category's offender set, "
              "the exit status, summary.compliant and files[] compared with refmodel.verdict; non-trivial = at least one injected defect; "
              "transitions = add-one-defect edges (one per state reached)"),
        bounds=bounds(tier, seed),
        assumptions=["unreadable files are simulated by failing every open() of the file and its .license sibling with EACCES (the sandbox runs as root)",
                     "trees have at most 6 covered files; fully random trees are sampling and are not used"],
        vacuity=vacuity,
    )
