"""C20 — copyright notices are built and merged without losing holders or years.

E1, three complete slices:
 build   holder grammar x year form x 10 prefix styles -> make_copyright_line,
         read back with the tool's own reader; notices passed in are verbatim;
 merge   every subset (size <= 3 quick / <= 4 thorough) of a 48-notice universe
         given to merge_copyright_lines, judged by refmodel.copyright;
 cli     annotate --copyright/--year/--copyright-prefix and
         annotate --merge-copyrights on files holding every subset of size <= 2,
         read back through `reuse lint --json`.
"""

from __future__ import annotations

import datetime
import itertools
import json
import time

from ..core import HarnessError, R, explore, finish, fresh_dir
from ..refmodel import copyright as ref

ID = "C20"
MODULE = "mc.checks.c20"

HOLDERS = [
    "Jane Doe", "jane doe", "J", "Free Software Foundation Europe e.V.", "Acme Inc.", "Acme, Inc.",
    "GmbH & Co. KG", "Müller & Söhne GmbH", "Łukasz Żółć", "山田太郎", "Jane Doe <jane@example.com>",
    "Jane Doe <https://example.com/~jane>", "Acme Inc. <https://acme.example>", "Doe, Jane", "Jane (JD) Doe",
    "3M Company", "Area 51 Labs", "R2-D2 Robotics", "O'Reilly Media", "\"Quoted\" Holder", "AT&T", "C++ Alliance",
    "Jane Doe and contributors", "The foo-bar Authors", "Jane Doe; John Roe", "x.y.z developers", "Jane   Doe",
    "Jane Doe, 2nd", "university of nowhere", "Ünïcödé Ltd", "Jane Doe [maintainer]", "Jane_Doe", "jane.doe@example.com",
    "ACME/Labs", "Jane Doe | Acme", "A+B Consulting", "Jane Doe %", "100% Open", "Jane-Doe", "Jane Doe!",
]
YEARS = [None, "2020", "2019-2021", "2019 - 2021"]
U_HOLDERS = ["Jane Doe", "Acme, Inc. <https://acme.example>", "Müller GmbH & Co. KG"]
U_YEARS = [None, "2017", "2015-2016", "2019 - 2022"]
U_PREFIXES = ["spdx", "string-c", "spdx-symbol", "symbol"]
UNIVERSE = [(p, y, h) for h in U_HOLDERS for y in U_YEARS for p in U_PREFIXES]


def bounds(tier, seed):
    return {"holders": len(HOLDERS), "year_forms": YEARS, "prefixes": sorted(ref.PREFIXES),
            "readback_styles": "all of NAME_STYLE_MAP", "merge_universe": len(UNIVERSE), "merge_subset_size": 3 if tier == "quick" else 5,
            "cli_merge_existing_subset_size": 2, "cli_new_holders": 1}


def cases(tier, seed):
    for h in HOLDERS:
        for y in YEARS:
            for p in ref.PREFIXES:
                yield {"k": "build", "h": h, "y": y, "p": p}
    for p in ref.PREFIXES:
        for y in YEARS:
            for h in HOLDERS[:4]:
                for p2 in ("spdx", "string-symbol"):
                    yield {"k": "verbatim", "h": h, "y": y, "p": p, "p2": p2}
    from ..annot import styles

    for st in styles():
        for h in HOLDERS:
            for y in (None, "2019 - 2021"):
                for p in ("spdx", "string-c"):
                    yield {"k": "build-style", "h": h, "y": y, "p": p, "style": st}
    n = 3 if tier == "quick" else 5
    for size in range(0, n + 1):
        for sub in itertools.combinations(range(len(UNIVERSE)), size):
            yield {"k": "merge", "s": list(sub)}
    # CLI build slice
    for p in list(ref.PREFIXES) + [None]:
        for yopt in ("exclude", "one", "two", "default", "range+one", "one+range", "three"):
            for h in HOLDERS[:6] if tier == "quick" else HOLDERS:
                yield {"k": "cli-build", "h": h, "p": p, "yopt": yopt}
    # the same through a project template (.reuse/templates), every holder
    for h in HOLDERS:
        for tpl in ("full", "hash.commented"):
            for p in ("spdx", "string-c"):
                yield {"k": "cli-build", "h": h, "p": p, "yopt": "one", "tpl": tpl}
    # CLI merge slice
    for size in range(0, 3):
        for sub in itertools.combinations(range(len(UNIVERSE)), size):
            for b in range(-1, len(U_HOLDERS)):
                for yopt in ("exclude", "one"):
                    if b == -1 and yopt == "one":
                        continue
                    yield {"k": "cli-merge", "s": list(sub), "b": b, "yopt": yopt}
    # existing headers that hold notices and nothing else (no licence tag that would help to recognise the block as a header)
    for i in range(len(UNIVERSE)):
        for b in range(-1, len(U_HOLDERS)):
            yield {"k": "cli-merge", "s": [i], "b": b, "yopt": "exclude", "nolic": True}
    for i, j in itertools.combinations(range(len(UNIVERSE)), 2):
        if UNIVERSE[i][2] == UNIVERSE[j][2]:
            yield {"k": "cli-merge", "s": [i, j], "b": U_HOLDERS.index(UNIVERSE[i][2]), "yopt": "one", "nolic": True}
    # several notices of one holder handed over in one command, as complete notices (kept verbatim by the builder), with and without an existing header
    same = [(i, j) for i, j in itertools.combinations(range(len(UNIVERSE)), 2) if UNIVERSE[i][2] == UNIVERSE[j][2]]
    for i, j in same:
        subs = [[]] + ([[k] for k in range(len(UNIVERSE))] if UNIVERSE[i][2] == U_HOLDERS[0] else [])
        for sub in subs:
            yield {"k": "cli-merge", "s": sub, "b": -2, "yopt": "exclude", "verbatim": [i, j]}


def _read_groups(line):
    from reuse.extract import _COPYRIGHT_PATTERNS

    for pat in _COPYRIGHT_PATTERNS:
        m = pat.search(line)
        if m is not None:
            return m.groupdict()
    return None


def ev_build(c) -> R:
    from reuse.copyright import make_copyright_line
    from reuse.extract import extract_reuse_info

    r = R()
    h, y, p = c["h"], c["y"], c["p"]
    want = ref.build(p, y, h)
    got = make_copyright_line(h, year=y, copyright_prefix=p)
    sig = f"build:{p}:{'none' if y is None else ('range-spaced' if ' - ' in y else ('range' if '-' in y else 'single'))}"
    if got != want:
        r.violation(sig + ":text", f"make_copyright_line({h!r}, {y!r}, {p!r}) = {got!r}, documented form is {want!r}")
        return r
    info = extract_reuse_info("# " + got + "\n")
    lines = sorted(info.copyright_lines)
    if lines != [want]:
        r.violation(sig + ":readback", f"notice {want!r} read back from a '# ' comment as {lines!r}")
        return r
    g = _read_groups(got)
    if g is None:
        r.violation(sig + ":groups", f"reader patterns do not match {got!r}")
        return r
    exp = (ref.PREFIXES[p], y, h)
    obs = (g["prefix"], g["year"], g["statement"])
    if obs != exp:
        r.violation(sig + ":groups", f"notice {got!r}: reader sees (prefix, year, holder) = {obs!r}, built from {exp!r}")
    r.outcome = "build-ok"
    r.nontrivial = y is not None or p != "spdx"
    return r


def ev_build_style(c) -> R:
    """The built notice inside a comment of every style, read back by the
    tool's reader.  A notice whose tail is the mirror image of what precedes
    it on its line is an ASCII-art frame by the reader's documented rule and
    is outside the asserted space."""
    from reuse.comment import CommentCreateError
    from reuse.copyright import make_copyright_line
    from reuse.extract import extract_reuse_info

    from ..annot import styles

    r = R()
    cls = styles()[c["style"]]
    line = make_copyright_line(c["h"], year=c["y"], copyright_prefix=c["p"])
    want = ref.build(c["p"], c["y"], c["h"])
    if not (cls.can_handle_single() or cls.can_handle_multi()):
        r.outcome, r.nontrivial = "n/a", False
        return r
    try:
        text = cls.create_comment(line) + "\n"
    except CommentCreateError:
        r.outcome, r.nontrivial = "refused", False
        return r
    here = next((l for l in text.splitlines() if line in l), None)
    if here is None:
        raise HarnessError(f"{c['style']}: notice not on a line of its own in {text!r}")
    before = here[: here.index(line)].strip()
    if before and not any(ch.isalnum() for ch in before) and line.endswith(before[::-1]):
        r.outcome, r.nontrivial = "frame-like", False
        return r
    lines = sorted(extract_reuse_info(text).copyright_lines)
    if lines != [want]:
        r.violation(f"build-style:{c['style']}:{c['p']}", f"notice {want!r} in a {c['style']} comment {text!r} is read back as {lines!r}")
    r.outcome = "build-style-ok"
    return r


def ev_verbatim(c) -> R:
    from reuse.copyright import make_copyright_line

    r = R()
    st = ref.build(c["p"], c["y"], c["h"])
    got = make_copyright_line(st, year="1999", copyright_prefix=c["p2"])
    if got != st:
        r.violation(f"verbatim:{c['p']}", f"statement {st!r} is already a notice but became {got!r}")
    r.outcome = "verbatim-ok"
    return r


def ev_merge(c) -> R:
    from reuse.copyright import merge_copyright_lines

    r = R()
    inputs = [UNIVERSE[i] for i in c["s"]]
    lines = {ref.build(*t) for t in inputs}
    out = sorted(merge_copyright_lines(set(lines)))
    for kind, msg in ref.check_merge(inputs, out):
        r.violation(f"merge:{kind}", f"merge_copyright_lines({sorted(lines)!r}): {msg}")
    holders = {t[2] for t in inputs}
    r.nontrivial = len(inputs) > len(holders)  # some holder occurs twice
    r.outcome = f"merge-{len(inputs)}-to-{len(out)}"
    return r


def _lint_copyrights(root, path):
    from ..cli import run_cli

    out = run_cli(["--root", str(root), "--no-multiprocessing", "lint", "--json"])
    if out.exc or out.exit_code not in (0, 1):
        raise HarnessError(f"lint failed: {out.brief()}")
    data = json.loads(out.stdout)
    for f in data["files"]:
        if f["path"] == path:
            return sorted(cc["value"] for cc in f["copyrights"])
    raise HarnessError(f"{path} not in lint output")


def ev_cli_build(c) -> R:
    from ..cli import run_cli

    r = R()
    root = fresh_dir("c20")
    (root / "f.py").write_text("x = 1\n")
    argv = ["--root", str(root), "annotate", "--copyright", c["h"]]
    if c.get("tpl"):
        from ..annot import template_recipe
        from ..fstree import materialise

        materialise(root, template_recipe([c["tpl"]]))
        argv += ["--template", c["tpl"]]
    years_ok = None
    if c["yopt"] == "exclude":
        argv.append("--exclude-year")
        years_ok = [None]
    elif c["yopt"] == "one":
        argv += ["--year", "2020"]
        years_ok = ["2020"]
    elif c["yopt"] == "two":
        argv += ["--year", "2021", "--year", "2019"]
        years_ok = ["2019 - 2021"]
    elif c["yopt"] == "range+one":
        # one of several --year values is itself a range
        argv += ["--year", "2015-2017", "--year", "2021"]
        years_ok = ["2015 - 2021"]
    elif c["yopt"] == "one+range":
        argv += ["--year", "2012", "--year", "2015 - 2017"]
        years_ok = ["2012 - 2017"]
    elif c["yopt"] == "three":
        argv += ["--year", "2021", "--year", "2015", "--year", "2018"]
        years_ok = ["2015 - 2021"]
    if c["p"]:
        argv += ["--copyright-prefix", c["p"]]
    y0 = datetime.date.today().year
    out = run_cli(argv + [str(root / "f.py")])
    y1 = datetime.date.today().year
    if years_ok is None:
        years_ok = sorted({str(y0), str(y1)})
    if out.exit_code != 0 or out.exc:
        r.violation(f"cli-build:{c['p']}:{c['yopt']}:failed", f"{argv[2:]} failed: {out.brief()}")
        return r
    got = _lint_copyrights(root, "f.py")
    wants = [[ref.build(c["p"] or "spdx", y, c["h"])] for y in years_ok]
    if got not in wants:
        r.violation(f"cli-build:{c['p']}:{c['yopt']}", f"annotate {argv[2:]} then lint reads {got!r}, expected {wants[0]!r}")
    r.outcome = "cli-build-ok"
    r.evals = 2
    return r


def ev_cli_merge(c) -> R:
    from ..cli import run_cli

    r = R()
    root = fresh_dir("c20")
    inputs = [UNIVERSE[i] for i in c["s"]]
    head = "".join("# " + ref.build(*t) + "\n" for t in inputs)
    if inputs and not c.get("nolic"):
        head += "#\n# SPDX-License-Identifier: MIT\n\n"
    elif inputs:
        head += "\n"
    (root / "f.py").write_text(head + "x = 1\n")
    argv = ["--root", str(root), "annotate", "--merge-copyrights"]
    new = []
    if c.get("verbatim"):
        for i in c["verbatim"]:
            argv += ["--copyright", ref.build(*UNIVERSE[i])]
            new.append(UNIVERSE[i])
        argv += ["--exclude-year"]
    elif c["b"] >= 0:
        argv += ["--copyright", U_HOLDERS[c["b"]]]
        if c["yopt"] == "one":
            argv += ["--year", "2018"]
            new.append(("spdx", "2018", U_HOLDERS[c["b"]]))
        else:
            argv += ["--exclude-year"]
            new.append(("spdx", None, U_HOLDERS[c["b"]]))
    else:
        argv += ["--license", "0BSD", "--exclude-year"]
    out = run_cli(argv + [str(root / "f.py")])
    if out.exit_code != 0 or out.exc:
        r.violation("cli-merge:failed", f"{argv[2:]} on {head!r} failed: {out.brief()}")
        return r
    got = _lint_copyrights(root, "f.py")
    for kind, msg in ref.check_merge(inputs + new, got):
        r.violation(f"cli-merge:{kind}", f"file with {[ref.build(*t) for t in inputs]!r}, annotate {argv[2:]}: {msg}")
    r.outcome = f"cli-merge-{len(inputs) + len(new)}-to-{len(got)}"
    r.nontrivial = len(inputs) + len(new) > len({t[2] for t in inputs + new})
    r.evals = 2
    return r


_EV = {"build": ev_build, "build-style": ev_build_style, "verbatim": ev_verbatim, "merge": ev_merge, "cli-build": ev_cli_build, "cli-merge": ev_cli_merge}


def evaluate(c) -> R:
    r = _EV[c["k"]](c)
    r.tags.append(c["k"])
    return r


def vacuity(st):
    for k in _EV:
        if not st.tags.get(k):
            return f"slice {k} did not run"
    if not any(o.startswith("merge-3-to-1") or o.startswith("merge-2-to-1") for o in st.outcomes):
        return "no merge case collapsed several notices into one"
    return None


def run(tier, seed):
    t0 = time.time()
    st = explore(MODULE, tier, seed)
    return finish(
        ID, "model_checking", MODULE, tier, seed, st, t0,
        rule=("complete products: holders x year forms x 10 prefixes (build + read-back), holders x 2 year forms x 2 prefixes x every comment style (read-back inside that style's comment), notices passed in verbatim, "
              "every subset up to the size bound of a 48-notice universe through merge_copyright_lines, and the same through the "
              "annotate CLI read back by lint; non-trivial = year or non-default prefix (build) / some holder occurs more than once (merge)"),
        bounds=bounds(tier, seed),
        assumptions=["holders that contain a copyright marker, start with a year, or end in a comment terminator are outside the asserted space (DESIGN section 3)",
                     "the ten prefix spellings are taken from the documentation (refmodel/copyright.py)"],
        vacuity=vacuity,
    )
