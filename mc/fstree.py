"""Tree recipes (JSON-able), materialisation and snapshots.

A recipe maps a POSIX relative path to a spec:
  "text"                       regular file, UTF-8 text
  {"hex": "..."}               regular file, raw bytes
  {"latin1": "..."}            regular file, bytes given as latin-1 string
  {"empty": true}              zero-size file
  {"dir": true}                directory (possibly empty)
  {"symlink": "target"}        symbolic link
Any dict spec may carry "mode": 0o444.
"""

from __future__ import annotations

import hashlib
import os
from pathlib import Path
from typing import Any


def spec_bytes(spec: Any) -> bytes:
    if isinstance(spec, str):
        return spec.encode("utf-8", "surrogateescape")
    if "hex" in spec:
        return bytes.fromhex(spec["hex"])
    if "latin1" in spec:
        return spec["latin1"].encode("latin-1")
    if "text" in spec:
        return spec["text"].encode("utf-8", "surrogateescape")
    if spec.get("empty"):
        return b""
    raise ValueError(f"no content in spec {spec!r}")


def materialise(root: Path, recipe: dict[str, Any]) -> None:
    root = Path(root)
    root.mkdir(parents=True, exist_ok=True)
    late_modes = []
    for rel in sorted(recipe):
        spec = recipe[rel]
        p = root / rel
        if isinstance(spec, dict) and spec.get("dir"):
            p.mkdir(parents=True, exist_ok=True)
        elif isinstance(spec, dict) and "symlink" in spec:
            p.parent.mkdir(parents=True, exist_ok=True)
            os.symlink(spec["symlink"], p)
        elif isinstance(spec, dict) and spec.get("fifo"):
            p.parent.mkdir(parents=True, exist_ok=True)
            os.mkfifo(p)
        else:
            p.parent.mkdir(parents=True, exist_ok=True)
            with open(p, "wb") as fp:
                fp.write(spec_bytes(spec))
        if isinstance(spec, dict) and "mode" in spec:
            late_modes.append((p, spec["mode"]))
    for p, m in late_modes:
        os.chmod(p, m)


def snapshot(root: Path, meta: bool = True) -> dict[str, tuple]:
    """path -> (type, size, mode, mtime_ns, sha1 | link target).  With
    meta=False mode and mtime are left out (content-only key)."""
    root = Path(root)
    out: dict[str, tuple] = {}
    for dirpath, dirnames, filenames in os.walk(root, followlinks=False):
        for name in sorted(dirnames + filenames):
            p = os.path.join(dirpath, name)
            rel = os.path.relpath(p, root)
            st = os.lstat(p)
            if os.path.islink(p):
                ent = ("l", 0, 0, 0, os.readlink(p))
                if meta:
                    ent = ("l", st.st_size, st.st_mode, st.st_mtime_ns, os.readlink(p))
            elif os.path.isdir(p):
                ent = ("d", 0, st.st_mode if meta else 0, 0, "")
            elif not os.path.isfile(p):
                ent = ("special", 0, st.st_mode if meta else 0, 0, "")
            else:
                with open(p, "rb") as fp:
                    digest = hashlib.sha1(fp.read()).hexdigest()
                ent = ("f", st.st_size, st.st_mode if meta else 0,
                       st.st_mtime_ns if meta else 0, digest)
            out[rel] = ent
    return out


def diff(a: dict[str, tuple], b: dict[str, tuple]) -> dict[str, list]:
    return {
        "created": sorted(set(b) - set(a)),
        "removed": sorted(set(a) - set(b)),
        "changed": sorted(k for k in set(a) & set(b) if a[k] != b[k]),
    }


def read_tree(root: Path) -> dict[str, bytes]:
    """Regular-file contents by relative path (symlinks not followed)."""
    out = {}
    for dirpath, _d, filenames in os.walk(root, followlinks=False):
        for name in filenames:
            p = os.path.join(dirpath, name)
            if os.path.islink(p) or not os.path.isfile(p):
                continue
            with open(p, "rb") as fp:
                out[os.path.relpath(p, root)] = fp.read()
    return out
