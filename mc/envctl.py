"""Seams of the environment explorer (E3), installed by patching module
attributes from the harness process; no source hook in /repo is involved."""
from __future__ import annotations

import builtins
import contextlib
import errno as _errno
import io
import os
import pathlib


class FaultPlan:
    """Raise OSError(errno) on chosen file opens.

    match(path:str)->bool selects the paths; nth=None faults every matching
    open, nth=k only the k-th (0-based) matching open.  Counts every
    matching open in .seen."""

    def __init__(self, match, err=_errno.EACCES, nth=None, modes=None):
        self.match = match
        self.err = err
        self.nth = nth
        self.modes = modes  # None = any mode; "r"/"w" restrict
        self.seen = 0
        self.fired = 0

    def check(self, path, mode="r"):
        try:
            p = os.fspath(path)
        except TypeError:
            return
        if isinstance(p, bytes):
            p = p.decode("utf-8", "surrogateescape")
        if not isinstance(p, str):
            return
        if self.modes == "r" and any(m in mode for m in "wax+"):
            return
        if self.modes == "w" and not any(m in mode for m in "wax+"):
            return
        if not self.match(os.path.abspath(p)):
            return
        k = self.seen
        self.seen += 1
        if self.nth is None or self.nth == k:
            self.fired += 1
            raise OSError(self.err, os.strerror(self.err), p)


@contextlib.contextmanager
def faulty_open(plan: FaultPlan):
    real_open = builtins.open
    real_io_open = io.open

    def fake_open(file, mode="r", *a, **kw):
        plan.check(file, mode)
        return real_open(file, mode, *a, **kw)

    builtins.open = fake_open
    io.open = fake_open
    try:
        yield plan
    finally:
        builtins.open = real_open
        io.open = real_io_open


@contextlib.contextmanager
def permuted_scandir(order_fn):
    """Every directory listing (os.scandir, hence os.walk and glob) comes back
    in the order chosen by order_fn(dirpath, sorted_names) -> list of names."""
    real = os.scandir

    class _It:
        def __init__(self, entries):
            self._e = entries
            self._i = iter(entries)

        def __iter__(self):
            return self

        def __next__(self):
            return next(self._i)

        def __enter__(self):
            return self

        def __exit__(self, *a):
            return False

        def close(self):
            pass

    def fake(path="."):
        with real(path) as it:
            entries = list(it)
        by = {e.name: e for e in entries}
        names = sorted(by)
        p = path if not isinstance(path, int) else "."
        order = order_fn(os.fspath(p) if not isinstance(p, bytes) else p, names)
        return _It([by[n] for n in order])

    os.scandir = fake
    try:
        yield
    finally:
        os.scandir = real
