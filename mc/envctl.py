"""Seams of the environment explorer (E3), installed by patching module
attributes from the harness process; no source hook in /repo is involved."""
from __future__ import annotations

import builtins
import contextlib
import errno as _errno
import io
import os
import pathlib


class FaultPlan:
    """Raise OSError(errno) on chosen file opens.

    match(path:str)->bool selects the paths; nth=None faults every matching
    open, nth=k only the k-th (0-based) matching open.  Counts every
    matching open in .seen."""

    def __init__(self, match, err=_errno.EACCES, nth=None, modes=None):
        self.match = match
        self.err = err
        self.nth = nth
        self.modes = modes  # None = any mode; "r"/"w" restrict
        self.seen = 0
        self.fired = 0

    def check(self, path, mode="r"):
        try:
            p = os.fspath(path)
        except TypeError:
            return
        if isinstance(p, bytes):
            p = p.decode("utf-8", "surrogateescape")
        if not isinstance(p, str):
            return
        if self.modes == "r" and any(m in mode for m in "wax+"):
            return
        if self.modes == "w" and not any(m in mode for m in "wax+"):
            return
        if not self.match(os.path.abspath(p)):
            return
        k = self.seen
        self.seen += 1
        if self.nth is None or self.nth == k:
            self.fired += 1
            raise OSError(self.err, os.strerror(self.err), p)


@contextlib.contextmanager
def faulty_open(plan: FaultPlan):
    real_open = builtins.open
    real_io_open = io.open

    def fake_open(file, mode="r", *a, **kw):
        plan.check(file, mode)
        return real_open(file, mode, *a, **kw)

    builtins.open = fake_open
    io.open = fake_open
    try:
        yield plan
    finally:
        builtins.open = real_open
        io.open = real_io_open


@contextlib.contextmanager
def permuted_scandir(order_fn):
    """Every directory listing (os.scandir, hence os.walk and glob) comes back
    in the order chosen by order_fn(dirpath, sorted_names) -> list of names."""
    real = os.scandir

    class _It:
        def __init__(self, entries):
            self._e = entries
            self._i = iter(entries)

        def __iter__(self):
            return self

        def __next__(self):
            return next(self._i)

        def __enter__(self):
            return self

        def __exit__(self, *a):
            return False

        def close(self):
            pass

    def fake(path="."):
        with real(path) as it:
            entries = list(it)
        by = {e.name: e for e in entries}
        names = sorted(by)
        p = path if not isinstance(path, int) else "."
        order = order_fn(os.fspath(p) if not isinstance(p, bytes) else p, names)
        return _It([by[n] for n in order])

    os.scandir = fake
    try:
        yield
    finally:
        os.scandir = real


# --------------------------------------------------------------------------
# virtual process pool


class VirtualPool:
    """Stand-in for multiprocessing.Pool that executes a harness-chosen
    schedule in-process.  It models what Pool.map does: the job list is cut
    into chunks, the callable is pickled *per chunk* (so per-chunk state of the
    callable is isolated exactly as in a worker process), chunks are executed
    in the schedule's order, results come back in job order (map/imap) or in
    completion order (imap_unordered)."""

    def __init__(self, schedule, log):
        self.schedule = schedule  # {"chunksize": int, "order": "perm index" | list}
        self.log = log

    # context manager protocol used by `with mp.Pool() as pool:`
    def __call__(self, *a, **kw):
        return self

    def __enter__(self):
        return self

    def __exit__(self, *a):
        return False

    def join(self):
        return None

    def close(self):
        return None

    def terminate(self):
        return None

    def _run(self, func, iterable):
        import pickle

        jobs = list(iterable)
        n = len(jobs)
        cs = max(1, int(self.schedule.get("chunksize") or 1))
        chunks = [list(range(i, min(i + cs, n))) for i in range(0, n, cs)]
        order = self.schedule.get("order")
        idx = list(range(len(chunks)))
        if order == "reverse":
            idx.reverse()
        elif isinstance(order, int) and chunks:
            k = order % len(chunks)
            idx = idx[k:] + idx[:k]
        elif isinstance(order, list):
            idx = [i for i in order if i < len(chunks)] + [i for i in idx if i not in order]
        results = [None] * n
        completion = []
        blob = pickle.dumps(func)
        for ci in idx:
            f = pickle.loads(blob)  # fresh copy of the callable per chunk, as in a worker
            for j in chunks[ci]:
                results[j] = pickle.loads(pickle.dumps(f(jobs[j])))
                completion.append(j)
        self.log.append({"jobs": n, "chunks": len(chunks), "order": idx})
        return results, completion

    def map(self, func, iterable, chunksize=None):
        return self._run(func, iterable)[0]

    def imap(self, func, iterable, chunksize=1):
        return iter(self._run(func, iterable)[0])

    def imap_unordered(self, func, iterable, chunksize=1):
        res, comp = self._run(func, iterable)
        return iter([res[j] for j in comp])

    def starmap(self, func, iterable, chunksize=None):
        return self._run(lambda args: func(*args), iterable)[0]

    def __getattr__(self, name):
        from .core import HarnessGap

        raise HarnessGap(f"VirtualPool does not model Pool.{name}")


@contextlib.contextmanager
def virtual_pool(schedule):
    import reuse.report as rep

    log = []
    real = rep.mp.Pool
    fake_mp = type("FakeMP", (), {})()
    for k in dir(rep.mp):
        if not k.startswith("__"):
            try:
                setattr(fake_mp, k, getattr(rep.mp, k))
            except Exception:
                pass
    fake_mp.Pool = VirtualPool(schedule, log)
    old = rep.mp
    rep.mp = fake_mp
    try:
        yield log
    finally:
        rep.mp = old


# --------------------------------------------------------------------------
# stub network


class _Resp:
    def __init__(self, code, body, fail_read=None):
        self.code, self.body, self.fail_read = code, body, fail_read

    def __enter__(self):
        return self

    def __exit__(self, *a):
        return False

    def getcode(self):
        return self.code

    @property
    def status(self):
        return self.code

    def read(self, *a):
        if self.fail_read is not None:
            raise self.fail_read
        return self.body


@contextlib.contextmanager
def stub_net(outcome_of):
    """Replace urllib.request.urlopen (as used by reuse.download).
    outcome_of(identifier) -> ('ok', bytes) | ('http', code) | ('urlerror',) |
    ('status', code) | ('reset',) | ('notutf8',).  Yields the list of
    requested URLs."""
    import urllib.error
    import urllib.request

    log = []
    real = urllib.request.urlopen

    def fake(url, *a, **kw):
        u = url if isinstance(url, str) else url.full_url
        log.append(u)
        u.encode("ascii")  # http.client puts the request line on the wire as ASCII: a non-ASCII URL raises UnicodeEncodeError there, too
        ident = u.rsplit("/", 1)[-1]
        ident = ident[:-4] if ident.endswith(".txt") else ident
        o = outcome_of(ident)
        kind = o[0]
        if kind == "ok":
            return _Resp(200, o[1])
        if kind == "http":
            raise urllib.error.HTTPError(u, o[1], "stub", None, None)
        if kind == "urlerror":
            raise urllib.error.URLError("stub: connection refused")
        if kind == "status":
            return _Resp(o[1], b"")
        if kind == "reset":
            return _Resp(200, b"", fail_read=ConnectionResetError(104, "stub: connection reset by peer"))
        if kind == "notutf8":
            return _Resp(200, b"\xff\xfe licence \xe9 text")
        if kind == "disconnected":
            import http.client

            raise http.client.RemoteDisconnected("stub: remote end closed connection without response")
        if kind == "incomplete":
            import http.client

            return _Resp(200, b"", fail_read=http.client.IncompleteRead(b"half of the te", 4000))
        if kind == "timeout":
            raise TimeoutError("stub: timed out")
        raise AssertionError(o)

    urllib.request.urlopen = fake
    try:
        yield log
    finally:
        urllib.request.urlopen = real
