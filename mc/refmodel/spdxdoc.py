"""Strict SPDX 2.1 tag-value reader (only what a REUSE bill of materials
uses) and a propositional evaluator for SPDX licence expressions."""
from __future__ import annotations

import itertools
import re

DOC_ONCE = ["SPDXVersion", "DataLicense", "DocumentName", "DocumentNamespace", "Created"]
KNOWN = set(DOC_ONCE) | {"SPDXID", "Creator", "CreatorComment", "Relationship", "FileName", "FileChecksum", "LicenseConcluded",
                         "LicenseInfoInFile", "FileCopyrightText", "LicenseID", "LicenseName", "ExtractedText"}
_TAG = re.compile(r"^([A-Za-z]+): ?(.*)$", re.S)


class SpdxFormatError(Exception):
    pass


def parse(text: str):
    """-> (doc: dict tag->list, files: list of dict, licenses: list of dict)"""
    lines = text.split("\n")
    pairs = []
    i = 0
    while i < len(lines):
        line = lines[i]
        i += 1
        if line == "":
            pairs.append(None)
            continue
        m = _TAG.match(line)
        if not m:
            raise SpdxFormatError(f"line {i}: not a tag-value line: {line[:80]!r}")
        tag, val = m.group(1), m.group(2)
        if tag not in KNOWN:
            raise SpdxFormatError(f"line {i}: unknown tag {tag!r}")
        if "<text>" in val:
            if not val.startswith("<text>"):
                raise SpdxFormatError(f"line {i}: <text> not at the start of the value")
            while "</text>" not in val:
                if i >= len(lines):
                    raise SpdxFormatError("unterminated <text>")
                val += "\n" + lines[i]
                i += 1
            if not val.endswith("</text>"):
                raise SpdxFormatError(f"line {i}: characters after </text>")
            val = val[len("<text>"):-len("</text>")]
            if "</text>" in val or "<text>" in val:
                raise SpdxFormatError("nested <text>")
        pairs.append((tag, val))
    doc: dict = {}
    files, lics = [], []
    cur = None
    for p in pairs:
        if p is None:
            continue
        tag, val = p
        if tag == "FileName":
            cur = {"FileName": val}
            files.append(cur)
            continue
        if tag == "LicenseID":
            cur = {"LicenseID": val}
            lics.append(cur)
            continue
        if cur is None:
            doc.setdefault(tag, []).append(val)
        else:
            cur.setdefault(tag, []).append(val)
    for t in DOC_ONCE + ["SPDXID"]:
        if len(doc.get(t, [])) != 1:
            raise SpdxFormatError(f"document tag {t} occurs {len(doc.get(t, []))} times")
    for f in files:
        for t in ("SPDXID", "FileChecksum", "LicenseConcluded", "FileCopyrightText"):
            if len(f.get(t, [])) != 1:
                raise SpdxFormatError(f"file {f['FileName']}: tag {t} occurs {len(f.get(t, []))} times")
    for l in lics:
        for t in ("LicenseName", "ExtractedText"):
            if len(l.get(t, [])) != 1:
                raise SpdxFormatError(f"licence {l['LicenseID']}: tag {t} occurs {len(l.get(t, []))} times")
    return doc, files, lics


# ---- propositional evaluation of licence expressions ---------------------

_TOK = re.compile(r"\s*(\(|\)|[^\s()]+)")


def tokens(expr: str):
    pos = 0
    out = []
    while pos < len(expr):
        m = _TOK.match(expr, pos)
        if not m:
            if expr[pos:].strip() == "":
                break
            raise ValueError(f"bad expression {expr!r}")
        out.append(m.group(1))
        pos = m.end()
    return out


def parse_expr(expr: str):
    toks = tokens(expr)
    pos = [0]

    def peek():
        return toks[pos[0]] if pos[0] < len(toks) else None

    def eat():
        pos[0] += 1
        return toks[pos[0] - 1]

    def p_or():
        node = p_and()
        while peek() is not None and peek().upper() == "OR":
            eat()
            node = ("or", node, p_and())
        return node

    def p_and():
        node = p_with()
        while peek() is not None and peek().upper() == "AND":
            eat()
            node = ("and", node, p_with())
        return node

    def p_with():
        node = p_atom()
        if peek() is not None and peek().upper() == "WITH":
            eat()
            exc = eat()
            if node[0] != "atom":
                raise ValueError("WITH after a compound")
            node = ("atom", node[1] + " WITH " + exc)
        return node

    def p_atom():
        t = eat()
        if t == "(":
            node = p_or()
            if eat() != ")":
                raise ValueError("missing )")
            return node
        if t in (")",) or t.upper() in ("AND", "OR", "WITH"):
            raise ValueError(f"unexpected {t}")
        return ("atom", t)

    node = p_or()
    if pos[0] != len(toks):
        raise ValueError(f"trailing tokens in {expr!r}")
    return node


def atoms(node, acc=None):
    acc = set() if acc is None else acc
    if node[0] == "atom":
        acc.add(node[1])
    else:
        atoms(node[1], acc)
        atoms(node[2], acc)
    return acc


def identifiers(expr: str) -> list[str]:
    return [t for t in tokens(expr) if t not in ("(", ")") and t.upper() not in ("AND", "OR", "WITH")]


def ev(node, env):
    if node[0] == "atom":
        return env[node[1]]
    if node[0] == "and":
        return ev(node[1], env) and ev(node[2], env)
    return ev(node[1], env) or ev(node[2], env)


def equivalent(concluded: str, exprs: list[str]):
    """Is *concluded* logically equivalent to the conjunction of *exprs*?
    Returns (bool, counter-assignment or None); every truth assignment of the
    atoms is evaluated."""
    lhs = parse_expr(concluded)
    rhs = [parse_expr(e) for e in exprs]
    names = sorted(set().union(atoms(lhs), *[atoms(x) for x in rhs]))
    if len(names) > 12:
        raise ValueError("too many atoms")
    for bits in itertools.product([False, True], repeat=len(names)):
        env = dict(zip(names, bits))
        if ev(lhs, env) != all(ev(x, env) for x in rhs):
            return False, env
    return True, None
