"""Reference model for copyright notices (independent of reuse): the ten
documented prefix styles, a parser for notices built from them, and the
merge post-condition."""

from __future__ import annotations

import re
from typing import Optional

PREFIXES = {
    "spdx": "SPDX-FileCopyrightText:",
    "spdx-c": "SPDX-FileCopyrightText: (C)",
    "spdx-string-c": "SPDX-FileCopyrightText: Copyright (C)",
    "spdx-string": "SPDX-FileCopyrightText: Copyright",
    "spdx-string-symbol": "SPDX-FileCopyrightText: Copyright ©",
    "spdx-symbol": "SPDX-FileCopyrightText: ©",
    "string": "Copyright",
    "string-c": "Copyright (C)",
    "string-symbol": "Copyright ©",
    "symbol": "©",
}
_BY_LEN = sorted(PREFIXES.values(), key=len, reverse=True)
_YEAR = re.compile(r"(\d{4})(?: ?- ?(\d{4}))?,?\s+")


def build(prefix_key: str, year: Optional[str], holder: str) -> str:
    p = PREFIXES[prefix_key]
    return f"{p} {year} {holder}" if year is not None else f"{p} {holder}"


def parse(line: str) -> Optional[tuple[str, tuple[int, ...], str]]:
    """(prefix text, years, holder) of a notice line, or None."""
    for p in _BY_LEN:
        if line.startswith(p + " "):
            rest = line[len(p):].lstrip()
            m = _YEAR.match(rest)
            years: tuple[int, ...] = ()
            if m:
                years = tuple(int(y) for y in m.groups() if y)
                rest = rest[m.end():]
            return p, years, rest.strip()
    return None


def years_of(year: Optional[str]) -> tuple[int, ...]:
    if not year:
        return ()
    return tuple(int(y) for y in re.findall(r"\d{4}", year))


def check_merge(inputs: list[tuple[str, Optional[str], str]], out_lines: list[str]) -> list[tuple[str, str]]:
    """inputs: (prefix_key, year, holder).  Returns [(kind, message)]."""
    problems = []
    want: dict[str, list[int]] = {}
    for _p, y, h in inputs:
        want.setdefault(h, []).extend(years_of(y))
    got: dict[str, list[tuple[int, ...]]] = {}
    for line in out_lines:
        parsed = parse(line)
        if parsed is None:
            problems.append(("unparseable-output", f"output line {line!r} is not a notice in any of the ten styles"))
            continue
        got.setdefault(parsed[2], []).append(parsed[1])
    for h in want:
        if h not in got:
            problems.append(("lost-holder", f"holder {h!r} disappeared; output {out_lines!r}"))
    for h in got:
        if h not in want:
            problems.append(("invented-holder", f"holder {h!r} appeared; output {out_lines!r}"))
            continue
        if len(got[h]) != 1:
            problems.append(("several-lines-per-holder", f"holder {h!r} has {len(got[h])} lines: {out_lines!r}"))
            continue
        ys = got[h][0]
        if want[h]:
            if not ys or min(ys) > min(want[h]) or max(ys) < max(want[h]):
                problems.append(("year-range-shrank", f"holder {h!r}: years in {sorted(set(want[h]))}, out {ys}; output {out_lines!r}"))
        elif ys:
            problems.append(("invented-year", f"holder {h!r} never had a year but output has {ys}"))
    return problems
