"""Reference model of the licence inventory (missing / unused / bad /
deprecated / without extension), written from the property statement; reads
only the bundled SPDX *data* files, no reuse code."""
from __future__ import annotations

import json
import os
import re

_RES = "/repo/src/reuse/resources"
_LIC = json.load(open(os.path.join(_RES, "licenses.json"), encoding="utf-8"))["licenses"]
_EXC = json.load(open(os.path.join(_RES, "exceptions.json"), encoding="utf-8"))["exceptions"]
SPDX_LICENSES = {x["licenseId"]: bool(x.get("isDeprecatedLicenseId")) for x in _LIC}
SPDX_EXCEPTIONS = {x["licenseExceptionId"]: bool(x.get("isDeprecatedLicenseId")) for x in _EXC}
SPDX = {**SPDX_LICENSES, **SPDX_EXCEPTIONS}
_REF = re.compile(r"LicenseRef-[a-zA-Z0-9-.]+$")


def strip_plus(k: str) -> str:
    return k[:-1] if k.endswith("+") else k


def known(k: str) -> bool:
    return k in SPDX or bool(_REF.match(k))


def file_identifier(relpath: str):
    """(identifier, lacks_extension) for a file below LICENSES/."""
    name = relpath.rsplit("/", 1)[-1]
    if name in SPDX:
        return name, True
    if "." in name.lstrip("."):
        return name[: name.rindex(".")], False
    return name, False


def inventory(uses: dict[str, list[str]], license_files: list[str]) -> dict:
    """uses: covered file -> identifiers used (as written, '+' kept);
    license_files: paths (relative to root) of files below LICENSES/, without
    *.license companions.  Returns the expected lint categories."""
    provided: dict[str, str] = {}
    without_ext: dict[str, str] = {}
    for f in license_files:
        ident, noext = file_identifier(f)
        provided[ident] = f
        if noext:
            without_ext[ident] = f
    used: dict[str, set] = {}
    for path, ids in uses.items():
        for k in ids:
            used.setdefault(k, set()).add(path)
    bad: dict[str, set] = {}
    missing: dict[str, set] = {}
    for k, paths in used.items():
        if not (known(k) or known(strip_plus(k))):
            bad.setdefault(k, set()).update(paths)
        if k not in provided and strip_plus(k) not in provided:
            missing.setdefault(k, set()).update(paths)
    for ident, f in provided.items():
        if not known(ident):
            bad.setdefault(ident, set()).add(f)
    unused = {i for i in provided if i not in used and (i if i.endswith("+") else i + "+") not in used}
    deprecated = {i for i in provided if SPDX.get(i)}
    return {
        "missing_licenses": {k: sorted(v) for k, v in missing.items()},
        "bad_licenses": {k: sorted(v) for k, v in bad.items()},
        "unused_licenses": sorted(unused),
        "deprecated_licenses": sorted(deprecated),
        "licenses_without_extension": dict(without_ext),
        "used_licenses": sorted(used),
    }


def observed(data: dict, root: str = "") -> dict:
    nc = data["non_compliant"]
    pre = str(root).rstrip("/") + "/"

    def rel(p):
        return p[len(pre):] if root and p.startswith(pre) else p

    return {
        "missing_licenses": {k: sorted(rel(x) for x in v) for k, v in nc["missing_licenses"].items()},
        "bad_licenses": {k: sorted(rel(x) for x in v) for k, v in nc["bad_licenses"].items()},
        "unused_licenses": sorted(nc["unused_licenses"]),
        "deprecated_licenses": sorted(nc["deprecated_licenses"]),
        "licenses_without_extension": dict(nc["licenses_without_extension"]),
        "used_licenses": sorted(data["summary"]["used_licenses"]),
    }
