"""Expected lint verdict of an abstract project (mc/projects.py), derived
from the description alone: per-file effective information (precedence rules)
-> licence inventory -> per-category offender sets -> exit status."""
from __future__ import annotations

from . import inventory as inv


def effective(f):
    """(copyright set, list of id-lists) of one abstract file."""
    parts = f["parts"]
    by = {}
    for p in parts:
        by.setdefault(p["mech"], []).append(p)
    c: set = set()
    ids: list = []
    exprs: list = []

    def add(p):
        c.update(p["c"])
        ids.extend(p["ids"])
        exprs.extend(p["l"])

    if "TO" in by:
        for p in by["TO"] + by.get("TA", []):
            add(p)
        return c, ids, exprs
    own = None
    if "S" in by:
        own = by["S"][0]
    elif "H" in by and not f["binary"]:
        own = by["H"][0]
        if len(by["H"]) > 1:  # several header parts: one of them broken breaks the file
            merged = {"c": [], "l": [], "ids": [], "broken": any(p["broken"] for p in by["H"])}
            for p in by["H"]:
                merged["c"] += p["c"]
                merged["l"] += p["l"]
                merged["ids"] += p["ids"]
            own = merged
    own_c, own_l = [], []
    if own is not None and not own["broken"]:
        add(own)
        own_c, own_l = own["c"], own["l"]
    for p in by.get("TA", []) + by.get("D5", []):
        add(p)
    for p in by.get("TC", []):
        if not own_c:
            c.update(p["c"])
        if not own_l:
            ids.extend(p["ids"])
            exprs.extend(p["l"])
    return c, ids, exprs


def expected(proj, unreadable=()):
    uses = {}
    no_c, no_l = [], []
    per_file = {}
    for path, f in proj["files"].items():
        if path in unreadable:
            continue
        c, ids, exprs = effective(f)
        c = {x for x in c if x}  # an empty string is not a copyright notice
        per_file[path] = {"c": sorted(c), "ids": [i for lst in ids for i in lst], "exprs": exprs}
        uses[path] = per_file[path]["ids"]
        if not c:
            no_c.append(path)
        if not ids:
            no_l.append(path)
    lic_files = [p for p in proj["licenses"]]
    cats = inv.inventory(uses, lic_files)
    used = cats.pop("used_licenses")
    cats["missing_copyright_info"] = sorted(no_c)
    cats["missing_licensing_info"] = sorted(no_l)
    cats["read_errors"] = sorted(unreadable)
    compliant = not any(cats.values())
    return {"categories": cats, "compliant": compliant, "files": sorted(per_file), "per_file": per_file, "used": used}


def observed(data, root=""):
    o = inv.observed(data, root)
    o.pop("used_licenses")
    nc = data["non_compliant"]
    pre = str(root).rstrip("/") + "/"

    def rel(p):
        return p[len(pre):] if root and p.startswith(pre) else p

    o["missing_copyright_info"] = sorted(rel(x) for x in nc["missing_copyright_info"])
    o["missing_licensing_info"] = sorted(rel(x) for x in nc["missing_licensing_info"])
    o["read_errors"] = sorted(rel(x) for x in nc["read_errors"])
    return o
