"""Reference model of per-file sources and precedence (REUSE spec 3.x),
independent of reuse.  Everything is expressed on abstract 'information
kinds': a source provides a set of copyright values and a set of licence
values; the model says which (value, source, source_type) items a file gets.
"""
from __future__ import annotations


def expected(file_src, own, sibling, chain):
    """
    file_src: (own_source_path, sibling_source_path)
    own:      None (nothing readable: no tags / unparseable / binary) or (copyrights, licences)
    sibling:  None (absent) or (copyrights, licences) -- may be two empty sets
    chain:    outermost -> innermost list of None | (precedence, copyrights, licences, source_path)
              (for each REUSE.toml: its LAST matching table)
    Returns (must_c, must_l, optional_c, optional_l): item sets that must be
    present exactly, plus items whose presence is unspecified.
    """
    eff = []
    for t in chain:
        if t is None:
            continue
        eff.append(t)
        if t[0] == "override":
            break
    overridden = bool(eff) and eff[-1][0] == "override"
    must_c, must_l, opt_c, opt_l = set(), set(), set(), set()
    for p, cs, ls, src in eff:
        if p in ("aggregate", "override"):
            must_c |= {(v, src, "reuse-toml") for v in cs}
            must_l |= {(v, src, "reuse-toml") for v in ls}
    closest = [t for t in eff if t[0] == "closest"]
    if overridden:
        # an outer 'closest' table above an override: the statement does not say
        for _p, cs, ls, src in closest:
            opt_c |= {(v, src, "reuse-toml") for v in cs}
            opt_l |= {(v, src, "reuse-toml") for v in ls}
        return must_c, must_l, opt_c, opt_l
    if sibling is not None:
        fc, fl, fsrc, ftype = sibling[0], sibling[1], file_src[1], "dot-license"
    elif own is not None:
        fc, fl, fsrc, ftype = own[0], own[1], file_src[0], "file-header"
    else:
        fc, fl, fsrc, ftype = set(), set(), None, None
    must_c |= {(v, fsrc, ftype) for v in fc}
    must_l |= {(v, fsrc, ftype) for v in fl}
    if not fc:
        for _p, cs, _ls, src in reversed(closest):
            if cs:
                must_c |= {(v, src, "reuse-toml") for v in cs}
                break
    if not fl:
        for _p, _cs, ls, src in reversed(closest):
            if ls:
                must_l |= {(v, src, "reuse-toml") for v in ls}
                break
    return must_c, must_l, opt_c, opt_l
