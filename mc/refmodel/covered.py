"""Reference definition of 'covered file' (three-valued), written from the
property statement / REUSE specification; imports nothing from reuse.

covered(parts, kinds, opts) -> True | False | None (unspecified)
  parts: path components relative to the project root
  kinds: for every prefix of parts its kind: 'dir' | 'file' | 'empty' | 'symlink'
  opts:  {'meson': bool, 'submodules': bool, 'submodule_dirs': set of tuples}
VCS ignore status is decided separately (Git is the oracle)."""
from __future__ import annotations

import re

_LICENSE_NAME = re.compile(r"^(LICENSE|LICENCE|COPYING)([-.].*)?$")
_SPDX_DOC = re.compile(r"^.*\.spdx(\.(rdf|json|xml|ya?ml))?$")
_UNSPEC_NAME = re.compile(r"^(CAL-1\.0|SHL-2\.1|\.git$|\.hgtags$)")
_VCS_DIRS = {".git", ".hg", ".sl"}


def covered(parts, kinds, opts=None):
    opts = opts or {}
    name = parts[-1]
    # every ancestor must be a real directory
    for i in range(len(parts) - 1):
        if kinds[i] != "dir":
            return False  # below a symlink (or not reachable)
    if kinds[-1] in ("symlink", "empty", "dir", "special"):
        return False  # only regular, non-empty, non-symlink files are covered (FIFOs, sockets, devices are not)
    dirs = parts[:-1]
    unspecified = False
    for depth, d in enumerate(dirs):
        if d in _VCS_DIRS:
            return False
        if d in ("LICENSES", ".reuse"):
            if depth == 0:
                return False
            unspecified = True
        if d == "subprojects" and depth + 1 < len(dirs):
            if depth == 0:
                if not opts.get("meson"):
                    return False
            else:
                unspecified = True  # Meson only knows the top-level subprojects/
    for depth in range(1, len(dirs) + 1):
        if tuple(dirs[:depth]) in opts.get("submodule_dirs", ()):
            if not opts.get("submodules"):
                return False
    if _LICENSE_NAME.match(name) or name.endswith(".license") or _SPDX_DOC.match(name) or name == "REUSE.toml":
        return False
    if _UNSPEC_NAME.match(name) or _LICENSE_NAME.match(name.upper()) and not _LICENSE_NAME.match(name):
        return None
    if unspecified:
        return None
    return True
