"""Reference language of REUSE.toml path globs (independent of reuse).

narrow: run of >= 2 unescaped '*' -> any string (incl. '/'), single '*' ->
[^/]*, '\\c' -> c, c -> c.      wide: additionally a globstar that forms a whole
leading path segment together with its following '/' ("**/" at the start of
the glob or right after a '/') may match nothing (zero directories) — the
established gitignore-style usage the property text calls the widest reading.
A glob ending in a dangling unescaped backslash is unspecified (None)."""

from __future__ import annotations

from typing import Optional

from ..automata import NFA, Builder


def parse(glob: str) -> Optional[list]:
    units = []
    i, n = 0, len(glob)
    while i < n:
        c = glob[i]
        if c == "\\":
            if i + 1 >= n:
                return None
            units.append(("lit", glob[i + 1], True))
            i += 2
        elif c == "*":
            j = i
            while j < n and glob[j] == "*":
                j += 1
            units.append(("star2",) if j - i >= 2 else ("star1",))
            i = j
        else:
            units.append(("lit", c, False))
            i += 1
    return units


def build(glob: str, wide: bool, unescaped_slash_only: bool = False) -> Optional[NFA]:
    units = parse(glob)
    if units is None:
        return None
    b = Builder()
    frags = []
    k = 0
    while k < len(units):
        u = units[k]
        if u[0] == "lit":
            frags.append(b.atom(("lit", u[1])))
        elif u[0] == "star1":
            frags.append(b.star(b.atom(("notlit", "/"))))
        else:
            seg_start = k == 0 or (units[k - 1][0] == "lit" and units[k - 1][1] == "/")
            nxt_slash = k + 1 < len(units) and units[k + 1][0] == "lit" and units[k + 1][1] == "/" and not (unescaped_slash_only and units[k + 1][2])
            if wide and seg_start and nxt_slash:
                frags.append(b.opt(b.cat([b.star(b.atom(("all",))), b.atom(("lit", "/"))])))
                k += 2
                continue
            frags.append(b.star(b.atom(("all",))))
        k += 1
    nfa = b.finish(b.cat(frags))
    nfa.mentioned |= {"/", "*", "\\"}
    return nfa


def build_alt(globs: list[str], wide: bool, unescaped_slash_only: bool = False) -> Optional[NFA]:
    """Union of several globs (one annotation with a list of paths)."""
    b = Builder()
    frags = []
    for g in globs:
        sub = build(g, wide, unescaped_slash_only)
        if sub is None:
            return None
        # re-embed sub-NFA into b
        off = b.nfa.n
        b.nfa.n += sub.n
        for q, lst in sub.char.items():
            for pred, q2 in lst:
                b.nfa.add_char(q + off, pred, q2 + off)
        for q, lst in sub.eps.items():
            for kind, q2 in lst:
                b.nfa.add_eps(q + off, q2 + off, kind)
        b.nfa.mentioned |= sub.mentioned
        frags.append((sub.start + off, sub.final + off))
    return b.finish(b.alt(frags))
