"""Compliant-by-construction project trees and the lattice of injected
defects shared by C01, C13 and C18.

A project is described *abstractly* (which file gets which copyright lines and
licence expressions through which mechanism); the same description is rendered
into a tree recipe and fed to the reference model (refmodel.verdict), so the
expected lint verdict is known by construction, never by parsing files.

Mechanisms of a part: H header comment, S .license sibling, TO/TA/TC table in a
REUSE.toml with precedence override/aggregate/closest, D5 dep5 paragraph.
"""
from __future__ import annotations

import copy
import itertools
import json

from .lintutil import PNG_HEX

C_F, C_G, C_H, C_K = "2019 Fay", "2020 Gus", "2021 Hal", "2022 Kim"


def part(mech, c=(), l=(), ids=None, toml=None, tpath=None):
    l = list(l)
    if ids is None:
        ids = [[x] for x in l]
    return {"mech": mech, "c": list(c), "l": l, "ids": [list(i) for i in ids], "toml": toml, "tpath": tpath, "broken": False}


def _f(style, parts, binary=False, body=None):
    return {"style": style, "binary": binary, "parts": parts, "body": body}


def _snippet_file():
    """A file whose only information sits in a snippet far behind the 4 KiB
    window, with the snippet marker straddling byte 4096."""
    unit = "filler line 0123456789\n"
    pad = ""
    while len(pad) + len(unit) <= 4090:
        pad += unit
    pad += "x" * (4090 - len(pad) - 1) + "\n"
    text = pad + "SPDX-SnippetBegin\n" + unit * 200 + "SPDX-SnippetCopyrightText: 2019 Snip\nSPDX-License-Identifier: 0BSD\nSPDX-SnippetEnd\n"
    assert text.index("SPDX-SnippetBegin") == 4090
    f = _f(None, [part("H", ["2019 Snip"], ["0BSD"])])
    f["raw"] = text
    return f


def base_headers():
    return {"name": "headers", "files": {
        "src/snippet.txt": _snippet_file(),
        "src/f.py": _f("#", [part("H", [C_F], ["MIT"])]),
        "src/g.c": _f("c", [part("H", [C_G], ["0BSD"])]),
        "docs/h.html": _f("html", [part("H", [C_H], ["MIT"])]),
        "k.sh": _f("#", [part("H", [C_K], ["0BSD"])]),
        "src/sp ace ö.py": _f("#", [part("H", ["2018 Özgür"], ["MIT"])]),
    }, "licenses": {"LICENSES/MIT.txt": "MIT text\n", "LICENSES/0BSD.txt": "0BSD text\n"}, "roles": {"f": "src/f.py", "g": "src/g.c", "h": "docs/h.html", "k": "k.sh"}}


def base_siblings():
    return {"name": "siblings", "files": {
        "f.txt": _f(None, [part("S", [C_F], ["MIT"])], body="plain text\n"),
        "img/g.png": _f(None, [part("S", [C_G], ["0BSD"])], binary=True),
        "h.py": _f("#", [part("H", [C_H], ["MIT"])]),
        "data/k.json": _f(None, [part("S", [C_K], ["0BSD"])], body="{}\n"),
        "data/sp ace é.bin": _f(None, [part("S", ["2018 Élo"], ["0BSD"])], binary=True),
    }, "licenses": {"LICENSES/MIT.txt": "MIT text\n", "LICENSES/0BSD.txt": "0BSD text\n"}, "roles": {"f": "f.txt", "g": "img/g.png", "h": "h.py", "k": "data/k.json"}}


def base_toml_override():
    t = "REUSE.toml"
    return {"name": "toml-override", "files": {
        # f carries a stale header that must be ignored under override
        "src/f.py": _f("#", [part("TO", [C_F], ["MIT"], toml=t, tpath="src/f.py"), part("H", ["2000 Stale"], ["ISC"])]),
        "src/g.c": _f("c", [part("TO", [C_G], ["0BSD"], toml=t, tpath="src/g.c")]),
        "h.txt": _f(None, [part("TO", [C_H], ["MIT"], toml=t, tpath="h.txt")], body="text\n"),
        "bin/x.png": _f(None, [part("TO", ["2012 Xan"], ["0BSD"], toml=t, tpath="bin/x.png")], binary=True),
        "k.sh": _f("#", [part("H", [C_K], ["0BSD"])]),
    }, "licenses": {"LICENSES/MIT.txt": "MIT text\n", "LICENSES/0BSD.txt": "0BSD text\n"}, "roles": {"f": "src/f.py", "g": "src/g.c", "h": "h.txt", "k": "k.sh"}}


def base_toml_nested():
    root, inner = "REUSE.toml", "src/REUSE.toml"
    return {"name": "toml-nested", "files": {
        "src/f.py": _f("#", [part("H", [], ["MIT"]), part("TA", ["2017 Agg"], [], toml=root, tpath="src/f.py"),
                             part("TC", [C_F], ["ISC"], toml=inner, tpath="f.py")]),
        "src/g.c": _f("c", [part("H", [C_G], []), part("TC", ["2016 Unused"], ["0BSD"], toml=inner, tpath="g.c")]),
        "src/h.txt": _f(None, [part("TC", [C_H], ["MIT"], toml=inner, tpath="h.txt")], body="text\n"),
        "src/k.sh": _f("#", [part("H", [C_K], ["0BSD"]), part("TC", ["2015 Unused"], ["ISC"], toml=inner, tpath="k.sh")]),
    }, "licenses": {"LICENSES/MIT.txt": "MIT text\n", "LICENSES/0BSD.txt": "0BSD text\n"}, "roles": {"f": "src/f.py", "g": "src/g.c", "h": "src/h.txt", "k": "src/k.sh"}}


def base_dep5():
    return {"name": "dep5", "files": {
        "src/f.py": _f("#", [part("H", [C_F], ["MIT"])]),
        "src/g.c": _f("c", [part("H", [C_G], []), part("D5", ["2014 Deb"], ["0BSD"], tpath="src/g.c")]),
        "h.txt": _f(None, [part("D5", [C_H], ["MIT"], tpath="h.txt")], body="text\n"),
        "k.sh": _f("#", [part("H", [C_K], ["0BSD"]), part("D5", ["2013 Deb"], ["0BSD"], tpath="k.sh")]),
    }, "licenses": {"LICENSES/MIT.txt": "MIT text\n", "LICENSES/0BSD.txt": "0BSD text\n"}, "roles": {"f": "src/f.py", "g": "src/g.c", "h": "h.txt", "k": "k.sh"}}


def base_compound():
    return {"name": "compound", "files": {
        "src/f.py": _f("#", [part("H", [C_F], ["MIT OR Apache-2.0"], ids=[["MIT", "Apache-2.0"]])]),
        "src/g.c": _f("c", [part("H", [C_G], ["GPL-3.0-or-later WITH Autoconf-exception-3.0", "0BSD"],
                                 ids=[["GPL-3.0-or-later", "Autoconf-exception-3.0"], ["0BSD"]])]),
        "h.py": _f("#", [part("H", [C_H], ["LicenseRef-x AND (MIT OR 0BSD)"], ids=[["LicenseRef-x", "MIT", "0BSD"]])]),
        "k.sh": _f("#", [part("H", [C_K], ["0BSD+"], ids=[["0BSD+"]])]),
    }, "licenses": {"LICENSES/MIT.txt": "MIT text\n", "LICENSES/0BSD.txt": "0BSD text\n", "LICENSES/Apache-2.0.txt": "apache\n",
                    "LICENSES/GPL-3.0-or-later.txt": "gpl\n", "LICENSES/Autoconf-exception-3.0.txt": "exc\n",
                    "LICENSES/LicenseRef-x.txt": "custom licence ä text\n"},
        "roles": {"f": "src/f.py", "g": "src/g.c", "h": "h.py", "k": "k.sh"}}


def base_toml_shared():
    """One `closest` table shared by several files with different own headers
    (state carried from one file to the next inside one run shows here)."""
    t = "REUSE.toml"
    sh = lambda: part("TC", ["2009 Shared"], ["MIT"], toml=t, tpath="shared/**")
    return {"name": "toml-shared", "files": {
        "src/f.py": _f("#", [part("H", [C_F], ["MIT"])]),
        "src/g.c": _f("c", [part("H", [C_G], ["0BSD"])]),
        "h.py": _f("#", [part("H", [C_H], ["MIT"])]),
        "k.sh": _f("#", [part("H", [C_K], ["0BSD"])]),
        "shared/a_conly.py": _f("#", [part("H", ["2008 Own"], []), sh()]),
        "shared/b_none.txt": _f(None, [sh()], body="text\n"),
        "shared/c_lonly.py": _f("#", [part("H", [], ["0BSD"]), sh()]),
        "shared/d_none.txt": _f(None, [sh()], body="text\n"),
        "shared/sub/e_conly.c": _f("c", [part("H", ["2007 Own"], []), sh()]),
        "shared/sub/f_none.txt": _f(None, [sh()], body="text\n"),
    }, "licenses": {"LICENSES/MIT.txt": "MIT text\n", "LICENSES/0BSD.txt": "0BSD text\n"}, "roles": {"f": "src/f.py", "g": "src/g.c", "h": "h.py", "k": "k.sh"}}


def base_toml_odd():
    """Odd but valid REUSE.toml values: empty copyright string, empty lists,
    a table without any information, several globs in one table."""
    t = "REUSE.toml"
    return {"name": "toml-odd", "files": {
        "src/f.py": _f("#", [part("H", [C_F], ["MIT"])]),
        "src/g.c": _f("c", [part("TO", [C_G], ["0BSD"], toml=t, tpath=["src/g.c", "src/nothing-here.c"])]),
        "h.txt": _f(None, [part("TO", [C_H], ["MIT"], toml=t, tpath="h.txt")], body="text\n"),
        "k.sh": _f("#", [part("H", [C_K], ["0BSD"])]),
        "odd/empty-copyright.txt": _f(None, [part("TO", [""], ["MIT"], toml=t, tpath="odd/empty-copyright.txt")], body="t\n"),
        "odd/empty-lists.txt": _f("#", [part("TA", [], [], toml=t, tpath="odd/empty-lists.txt"), part("H", ["2011 Odd"], ["0BSD"])], body=None),
        "odd/no-info-override.txt": _f(None, [part("TO", [], [], toml=t, tpath="odd/no-info-override.txt")], body="t\n"),
    }, "licenses": {"LICENSES/MIT.txt": "MIT text\n", "LICENSES/0BSD.txt": "0BSD text\n"}, "roles": {"f": "src/f.py", "g": "src/g.c", "h": "h.txt", "k": "k.sh"}}


BASES = [base_headers, base_siblings, base_toml_override, base_toml_nested, base_dep5, base_compound, base_toml_odd, base_toml_shared]
BASE_NAMES = [b()["name"] for b in BASES]

# ---- defects ------------------------------------------------------------
# group A: at most one of them (all act on file f)
A_DEFECTS = ["a1-strip-copyright", "a2-strip-licence", "a3-strip-both", "a4-unparseable", "a5-empty-sibling"]
LONG_PATH = ("docs/a rather long directory name - with blanks and hyphens in it/second level - also quite long indeed/"
             "a file name that goes on and on - far beyond eighty columns.txt")
OTHER_DEFECTS = ["a6-long-path-no-licence", "b1-unknown-id", "b2-wrong-case-id", "b3-licenseref-no-text", "b4-remove-used-text", "b5-two-files-miss-different-texts",
                 "c1-unused-text", "c2-no-extension", "c3-deprecated", "c4-not-an-id", "c5-unused-licenseref", "d1-unreadable"]
DEFECTS = A_DEFECTS + OTHER_DEFECTS


def defect_sets(max_size: int):
    """Every defect set of size <= max_size with at most one group-A member."""
    for n in range(0, max_size + 1):
        for comb in itertools.combinations(DEFECTS, n):
            if sum(1 for d in comb if d in A_DEFECTS) <= 1:
                yield list(comb)


def _primary_licence_part(f):
    """The part whose expressions the B defects extend: the first effective
    part that carries licences."""
    for p in f["parts"]:
        if p["l"] and not (p["mech"] == "H" and any(q["mech"] == "TO" for q in f["parts"])):
            return p
    return None


def apply_defects(proj, defects):
    """Returns (project, unreadable paths)."""
    proj = copy.deepcopy(proj)
    roles = proj["roles"]
    unreadable = []
    for d in defects:
        f = proj["files"][roles["f"]]
        g = proj["files"][roles["g"]]
        if d == "a1-strip-copyright":
            for p in f["parts"]:
                if not (p["mech"] == "H" and p["c"] == ["2000 Stale"]):
                    p["c"] = []
        elif d == "a2-strip-licence":
            for p in f["parts"]:
                if not (p["mech"] == "H" and p["c"] == ["2000 Stale"]):
                    p["l"], p["ids"] = [], []
        elif d == "a3-strip-both":
            for p in f["parts"]:
                if not (p["mech"] == "H" and p["c"] == ["2000 Stale"]):
                    p["c"], p["l"], p["ids"] = [], [], []
        elif d == "a4-unparseable":
            own = [p for p in f["parts"] if p["mech"] in ("H", "S")]
            if own:
                for p in own:
                    p["broken"] = True
            else:
                f["parts"].append(dict(part("H", ["1999 Broken"], []), broken=True))
                if f["style"] is None:
                    f["style"] = "#"
        elif d == "a5-empty-sibling":
            sib = [p for p in f["parts"] if p["mech"] == "S"]
            if sib:
                for p in sib:
                    p["c"], p["l"], p["ids"] = [], [], []
            else:
                f["parts"].append(part("S", [], []))
        elif d in ("b1-unknown-id", "b2-wrong-case-id", "b3-licenseref-no-text"):
            ident = {"b1-unknown-id": "Nope-1.0", "b2-wrong-case-id": "isc", "b3-licenseref-no-text": "LicenseRef-absent"}[d]
            p = _primary_licence_part(g)
            if p is None:
                raise AssertionError("g has no licence part")
            p["l"][0] = f"{p['l'][0]} AND {ident}" if " " not in p["l"][0] else f"({p['l'][0]}) AND {ident}"
            p["ids"][0] = p["ids"][0] + [ident]
        elif d == "a6-long-path-no-licence":
            proj["files"][LONG_PATH] = _f(None, [part("S", ["2016 Long"], [])], body="text\n")
        elif d == "b5-two-files-miss-different-texts":
            for role, ident in (("f", "ISC"), ("g", "Zlib")):
                p = _primary_licence_part(proj["files"][roles[role]])
                if p is not None:
                    p["l"][0] = f"{p['l'][0]} AND {ident}" if " " not in p["l"][0] else f"({p['l'][0]}) AND {ident}"
                    p["ids"][0] = p["ids"][0] + [ident]
        elif d == "b4-remove-used-text":
            proj["licenses"].pop("LICENSES/0BSD.txt")
        elif d == "c1-unused-text":
            proj["licenses"]["LICENSES/Zlib.txt"] = "zlib\n"
        elif d == "c2-no-extension":
            proj["licenses"]["LICENSES/MIT"] = proj["licenses"].pop("LICENSES/MIT.txt")
        elif d == "c3-deprecated":
            h = proj["files"][roles["h"]]
            p = _primary_licence_part(h)
            if p is not None:
                p["l"][0] = f"{p['l'][0]} AND GPL-2.0" if " " not in p["l"][0] else f"({p['l'][0]}) AND GPL-2.0"
                p["ids"][0] = p["ids"][0] + ["GPL-2.0"]
            proj["licenses"]["LICENSES/GPL-2.0.txt"] = "gpl2\n"
        elif d == "c5-unused-licenseref":
            proj["licenses"]["LICENSES/LicenseRef-Spare-2.1.txt"] = "spare custom licence\nsecond line\n"
        elif d == "c4-not-an-id":
            proj["licenses"]["LICENSES/notanid.txt"] = "what\n"
        elif d == "d1-unreadable":
            unreadable.append(roles["k"])
        else:
            raise AssertionError(d)
    return proj, unreadable


# ---- rendering ------------------------------------------------------------


def _comment(style, lines):
    if style == "#":
        return "".join(f"# {x}\n" for x in lines)
    if style == "c":
        return "/*\n" + "".join(f" * {x}\n" for x in lines) + " */\n"
    if style == "html":
        return "<!--\n" + "".join(f"{x}\n" for x in lines) + "-->\n"
    raise AssertionError(style)


BODY = {"#": "echo body\n", "c": "int main(void) { return 0; }\n", "html": "<p>body</p>\n"}


def render(proj):
    recipe = {}
    tomls: dict[str, list] = {}
    dep5 = []
    for path, f in proj["files"].items():
        head = ""
        for p in f["parts"]:
            lines = [f"SPDX-FileCopyrightText: {c}" for c in p["c"]] + [f"SPDX-License-Identifier: {e}" for e in p["l"]]
            if p["broken"]:
                lines.append("SPDX-License-Identifier: MIT AND AND")
            if p["mech"] == "H":
                if lines and f.get("raw") is None:
                    head += _comment(f["style"], lines)
            elif p["mech"] == "S":
                recipe[path + ".license"] = "".join(x + "\n" for x in lines) if lines else {"empty": True}
            elif p["mech"] in ("TO", "TA", "TC"):
                prec = {"TO": "override", "TA": "aggregate", "TC": "closest"}[p["mech"]]
                t = ["[[annotations]]", "path = %s" % json.dumps(p["tpath"]), f'precedence = "{prec}"']
                if p["c"]:
                    t.append("SPDX-FileCopyrightText = %s" % json.dumps(p["c"] if len(p["c"]) != 1 else p["c"][0], ensure_ascii=False))
                elif p["mech"] == "TA":
                    t.append("SPDX-FileCopyrightText = []")
                if p["l"]:
                    t.append("SPDX-License-Identifier = %s" % json.dumps(p["l"]))
                elif p["mech"] == "TA":
                    t.append("SPDX-License-Identifier = []")
                table = "\n".join(t) + "\n"
                if table not in tomls.setdefault(p["toml"], []):  # identical tables are written once (one shared table)
                    tomls[p["toml"]].append(table)
            elif p["mech"] == "D5":
                if not (p["c"] and len(p["l"]) == 1):
                    raise AssertionError("a dep5 paragraph needs copyright and exactly one licence expression")
                dep5.append(f"Files: {p['tpath']}\nCopyright: " + "\n ".join(p["c"]) + f"\nLicense: {p['l'][0]}\n")
        if f.get("raw") is not None:
            recipe[path] = f["raw"]
        elif f["binary"]:
            recipe[path] = {"hex": PNG_HEX}
        else:
            body = f["body"] if f["body"] is not None else BODY.get(f["style"], "body\n")
            recipe[path] = head + body
    for t, tables in tomls.items():
        recipe[t] = "version = 1\n\n" + "\n".join(tables)
    if dep5 or any(p["mech"] == "D5" for f in proj["files"].values() for p in f["parts"]):
        recipe[".reuse/dep5"] = ("Format: https://www.debian.org/doc/packaging-manuals/copyright-format/1.0/\nUpstream-Name: x\n\n"
                                 + "\n".join(dep5))
    for path, text in proj["licenses"].items():
        recipe[path] = text
    return recipe


# Non-covered clutter added to every tree: none of it may ever be reported.
CLUTTER = {
    "LICENSE": "some licence text without tags\n",
    "COPYING.md": "copying\n",
    "docs/LICENCE-extra.txt": "licence\n",
    "empty.txt": {"empty": True},
    "orphan.license": "SPDX-License-Identifier: Zlib\n",
    "bom.spdx": "SPDXVersion: SPDX-2.1\n",
    "bom.spdx.json": "{}\n",
    "link-to-file": {"symlink": "LICENSE"},
    "link-to-dir": {"symlink": "docs"},
    "dangling-link": {"symlink": "does/not/exist"},
    "docs/loop": {"symlink": "loop"},
    "LICENSES/MIT.txt.license": "SPDX-FileCopyrightText: 2000 MIT authors\nSPDX-License-Identifier: CC0-1.0\n",
    ".reuse/templates/t.jinja2": "{{ x }}\n",
    ".hgtags": "tags\n",
    "docs/named-pipe": {"fifo": True},
}


def render_with_clutter(proj):
    recipe = dict(CLUTTER)
    recipe.update(render(proj))
    if "LICENSES/MIT.txt" not in recipe:
        recipe.pop("LICENSES/MIT.txt.license")
    return recipe
