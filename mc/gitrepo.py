"""Throw-away Git repositories with a hermetic configuration."""
from __future__ import annotations

import os
import subprocess

ENV = {
    "GIT_CONFIG_GLOBAL": "/dev/null", "GIT_CONFIG_NOSYSTEM": "1", "GIT_AUTHOR_NAME": "v", "GIT_AUTHOR_EMAIL": "v@example.com",
    "GIT_COMMITTER_NAME": "v", "GIT_COMMITTER_EMAIL": "v@example.com", "GIT_AUTHOR_DATE": "2020-01-01T00:00:00Z",
    "GIT_COMMITTER_DATE": "2020-01-01T00:00:00Z", "HOME": "/nonexistent", "LC_ALL": "C",
}


def git(root, *args, check=True):
    env = dict(os.environ)
    keep_global = env.get("GIT_CONFIG_GLOBAL") if env.get("VERIF_GIT_GLOBAL_OVERRIDE") else None
    env.update(ENV)
    if keep_global:
        env["GIT_CONFIG_GLOBAL"] = keep_global
    p = subprocess.run(["git", "-c", "init.defaultBranch=main", "-c", "protocol.file.allow=always", "-c", "core.quotePath=false",
                        "-c", "advice.detachedHead=false", *args], cwd=str(root), env=env, capture_output=True, text=True)
    if check and p.returncode != 0:
        raise RuntimeError(f"git {' '.join(args)} failed in {root}: {p.stderr[:400]}")
    return p


def init(root, add=True, commit=False):
    git(root, "init", "-q")
    if add:
        git(root, "add", "-A")
    if commit:
        git(root, "commit", "-q", "-m", "init", "--allow-empty")
