"""Helpers shared by the annotate-family checks (C07-C11)."""
from __future__ import annotations

import json

from .cli import run_cli
from .core import HarnessError

TEMPLATES = {
    # renders everything, with extra text
    "full": ("Header of this file\n\n{% for copyright_line in copyright_lines %}\n{{ copyright_line }}\n{% endfor %}\n"
             "{% for contributor_line in contributor_lines %}\nSPDX-FileContributor: {{ contributor_line }}\n{% endfor %}\n\n"
             "{% for expression in spdx_expressions %}\nSPDX-License-Identifier: {{ expression }}\n{% endfor %}\n"),
    "nocontrib": ("{% for copyright_line in copyright_lines %}\n{{ copyright_line }}\n{% endfor %}\n\n"
                  "{% for expression in spdx_expressions %}\nSPDX-License-Identifier: {{ expression }}\n{% endfor %}\n"),
    "nolicence": ("{% for copyright_line in copyright_lines %}\n{{ copyright_line }}\n{% endfor %}\n"),
    "nocopyright": ("{% for expression in spdx_expressions %}\nSPDX-License-Identifier: {{ expression }}\n{% endfor %}\n"),
    "nothing": "Just some text\n",
    # pre-commented (python style)
    "hash.commented": ("{% for copyright_line in copyright_lines %}\n# {{ copyright_line }}\n{% endfor %}\n"
                       "{% for contributor_line in contributor_lines %}\n# SPDX-FileContributor: {{ contributor_line }}\n{% endfor %}\n#\n"
                       "{% for expression in spdx_expressions %}\n# SPDX-License-Identifier: {{ expression }}\n{% endfor %}\n"),
    # a fixed licence line instead of the loop (equal to what the harness requests: MIT)
    "fixed-licence": ("{% for copyright_line in copyright_lines %}\n{{ copyright_line }}\n{% endfor %}\n"
                      "{% for contributor_line in contributor_lines %}\nSPDX-FileContributor: {{ contributor_line }}\n{% endfor %}\n\nSPDX-License-Identifier: MIT\n"),
    # a fixed notice on top of the loops: the header holds more than was requested
    "extra-notice": ("{% for copyright_line in copyright_lines %}\n{{ copyright_line }}\n{% endfor %}\nSPDX-FileCopyrightText: 2019 Example Org\n\n"
                     "{% for expression in spdx_expressions %}\nSPDX-License-Identifier: {{ expression }}\n{% endfor %}\n"),
    # boilerplate that mentions "Copyright" wrapped into an ignore block, the documented way to keep it from being read as a notice
    "ignore-block": ("{% for copyright_line in copyright_lines %}\n{{ copyright_line }}\n{% endfor %}\n\n"
                     "{% for expression in spdx_expressions %}\nSPDX-License-Identifier: {{ expression }}\n{% endfor %}\n\n"
                     "REUSE-IgnoreStart\nPart of Foo. Copyright is held by the contributors, see AUTHORS.\nREUSE-IgnoreEnd\n"),
    # pre-commented as one C block comment (the comment terminator may then sit inside a value)
    "cblock.commented": ("/*\n{% for copyright_line in copyright_lines %}\n * {{ copyright_line }}\n{% endfor %}\n"
                         "{% for contributor_line in contributor_lines %}\n * SPDX-FileContributor: {{ contributor_line }}\n{% endfor %}\n *\n"
                         "{% for expression in spdx_expressions %}\n * SPDX-License-Identifier: {{ expression }}\n{% endfor %}\n */\n"),
    # templates that cannot be loaded or rendered at all
    "broken-syntax": "{% for x in %}\n", "broken-unclosed": "{% for c in copyright_lines %}\n{{ c }}\n", "broken-filter": "{{ copyright_lines | nosuchfilter }}\n",
    "broken-undefined": "{{ nosuch.attr }}\n", "broken-div0": "{{ 1 // 0 }}\n", "broken-include": "{% include 'nope.jinja2' %}\n",
    "broken-type": "{{ copyright_lines + 1 }}\n",
    # renders fine, but what it renders holds a tag that cannot be parsed
    "broken-static-expression": ("{% for copyright_line in copyright_lines %}\n{{ copyright_line }}\n{% endfor %}\nSPDX-License-Identifier: MIT AND\n"
                                 "{% for expression in spdx_expressions %}\nSPDX-License-Identifier: {{ expression }}\n{% endfor %}\n"), "broken-utf8": {"hex": b"\xff\xfe{{ x }}\n".hex()},
    # pre-commented and information-dropping
    "nolicence.commented": ("# Project header\n#\n{% for copyright_line in copyright_lines %}\n# {{ copyright_line }}\n{% endfor %}\n"),
    "nothing.commented": "# Just some text\n",
}


def template_recipe(names):
    return {f".reuse/templates/{n}.jinja2": TEMPLATES[n] for n in names}


def file_types():
    """(file name, style class) for every entry of the extension and the
    file-name tables of the real code (read at run time)."""
    from reuse.comment import EXTENSION_COMMENT_STYLE_MAP, FILENAME_COMMENT_STYLE_MAP

    out = []
    for ext, cls in EXTENSION_COMMENT_STYLE_MAP.items():
        out.append(("f" + ext, cls))
    for name, cls in FILENAME_COMMENT_STYLE_MAP.items():
        out.append((name, cls))
    return out


def styles():
    from reuse.comment import NAME_STYLE_MAP

    return dict(NAME_STYLE_MAP)


def annotate(root, args, paths, cwd=None):
    return run_cli(["--root", str(root), "annotate", *args, *[str(p) for p in paths]], cwd=cwd)


def lint_file_info(root, relpath):
    out = run_cli(["--root", str(root), "--no-multiprocessing", "lint", "--json"])
    if out.exc or out.exit_code not in (0, 1):
        raise HarnessError(f"lint failed: {out.brief()}")
    data = json.loads(out.stdout)
    for f in data["files"]:
        if f["path"] == relpath:
            return (sorted(c["value"] for c in f["copyrights"]), sorted(e["value"] for e in f["spdx_expressions"]),
                    sorted({c["source"] for c in f["copyrights"]} | {e["source"] for e in f["spdx_expressions"]}))
    return None


def contributors_of(text: str):
    from reuse.extract import extract_reuse_info

    try:
        return sorted(extract_reuse_info(text).contributor_lines)
    except Exception as e:  # unparseable expression etc.
        return ["<%s>" % type(e).__name__]
