"""In-process invocation of the real ``reuse`` command line (the click entry
point ``reuse.cli.main.main``), with process-global state saved and restored so
that consecutive invocations in one worker do not influence each other."""

from __future__ import annotations

import logging
import os
import subprocess
import sys
import warnings
from typing import Optional, Sequence

from .core import PY


class Outcome:
    __slots__ = ("exit_code", "stdout", "stderr", "exc", "exc_repr", "logs")

    def __init__(self, exit_code, stdout, stderr, exc, exc_repr, logs):
        self.exit_code = exit_code
        self.stdout = stdout
        self.stderr = stderr
        self.exc = exc  # None or exception type name that escaped main()
        self.exc_repr = exc_repr
        self.logs = logs

    def brief(self) -> dict:
        return {"exit": self.exit_code, "exc": self.exc, "stdout": self.stdout[-800:],
                "stderr": self.stderr[-800:]}


class _ListHandler(logging.Handler):
    def __init__(self):
        super().__init__()
        self.records: list[str] = []

    def emit(self, record):
        try:
            self.records.append(f"{record.levelname}:{record.getMessage()}")
        except Exception:  # pragma: no cover
            self.records.append(f"{record.levelname}:<unformattable>")


_HANDLER: Optional[_ListHandler] = None


def _install_logging() -> _ListHandler:
    """reuse's setup_logging() adds a StreamHandler bound to whatever
    sys.stderr is at that moment unless the logger already has a handler; we
    install a collecting handler first so that nothing is bound to a
    CliRunner's temporary stream."""
    global _HANDLER
    if _HANDLER is None:
        _HANDLER = _ListHandler()
        lg = logging.getLogger("reuse")
        lg.addHandler(_HANDLER)
        lg.setLevel(logging.WARNING)
        lg.propagate = False
    return _HANDLER


def run_cli(argv: Sequence[str], cwd: Optional[str] = None, env: Optional[dict] = None,
            stdin: Optional[str] = None) -> Outcome:
    from click.testing import CliRunner
    from reuse.cli.main import main

    handler = _install_logging()
    handler.records = []
    old_cwd = os.getcwd()
    old_env = dict(os.environ)
    old_filters = warnings.filters[:]
    try:
        if cwd is not None:
            os.chdir(cwd)
        os.environ.pop("_SUPPRESS_DEP5_WARNING", None)
        if env:
            os.environ.update(env)
        with warnings.catch_warnings():
            warnings.simplefilter("ignore")
            res = CliRunner().invoke(main, list(argv), input=stdin, catch_exceptions=True)
    finally:
        os.chdir(old_cwd)
        os.environ.clear()
        os.environ.update(old_env)
        warnings.filters[:] = old_filters
        logging.getLogger("reuse").setLevel(logging.WARNING)
    exc = None
    exc_repr = None
    if res.exception is not None and not isinstance(res.exception, SystemExit):
        exc = type(res.exception).__name__
        exc_repr = repr(res.exception)[:500]
    try:
        stderr = res.stderr
    except Exception:
        stderr = ""
    return Outcome(res.exit_code, res.stdout, stderr, exc, exc_repr, list(handler.records))


def run_cli_subprocess(argv: Sequence[str], cwd: Optional[str] = None,
                       env: Optional[dict] = None, timeout: int = 120) -> Outcome:
    e = dict(os.environ)
    e.update({"LC_ALL": "C", "LANGUAGE": "", "TZ": "UTC", "PYTHONHASHSEED": e.get("PYTHONHASHSEED", "0")})
    if env:
        e.update(env)
    p = subprocess.run([PY, "-m", "reuse", *argv], cwd=cwd, env=e, capture_output=True,
                       text=True, timeout=timeout, errors="replace")
    exc = None
    if "Traceback (most recent call last)" in p.stderr:
        last = [l for l in p.stderr.strip().splitlines() if l and not l.startswith(" ")]
        exc = last[-1].split(":")[0] if last else "Traceback"
    return Outcome(p.returncode, p.stdout, p.stderr, exc, exc, [])
