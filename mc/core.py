"""Shared machinery: deterministic sharded exploration, counters, violation
confirmation, known-findings matching, evidence writing.

Everything here is technique plumbing; the deciding step of every check is the
complete enumeration its ``cases()`` generator (or its own BFS) describes.
"""

from __future__ import annotations

import hashlib
import json
import multiprocessing as mp
import os
import re
import shutil
import subprocess
import sys
import tempfile
import time
import traceback
from collections import Counter
from pathlib import Path
from typing import Any, Callable, Iterable, Iterator, Optional

VERIF = Path(__file__).resolve().parent.parent
EVIDENCE_DIR = VERIF / "evidence"
REPLAY_DIR = VERIF / "replays"
KNOWN_FILE = VERIF / "known_findings.json"
PY = "/venv/bin/python"
NWORKERS = int(os.environ.get("VERIF_WORKERS", "16"))

EXIT_OK, EXIT_VIOLATION, EXIT_BROKEN = 0, 1, 2


class HarnessError(Exception):
    """The check itself is broken (never reported as a VIOLATION)."""


class HarnessGap(HarnessError):
    """The code under test used something a seam/model does not cover."""


# --------------------------------------------------------------------------
# scratch space


def scratch_base(stable: bool = False) -> Path:
    """Where scratch directories live.  mc.run points VERIF_SCRATCH at a
    directory of its own for the whole run (all forked workers and fresh
    subprocesses inherit it) and removes it at the end; *stable* asks for the
    run-independent base (case_dir: a path that is a function of the case only)."""
    base = os.environ.get("VERIF_SCRATCH_STABLE" if stable else "VERIF_SCRATCH") or os.environ.get("VERIF_SCRATCH_STABLE")
    if base:
        p = Path(base)
    elif os.path.isdir("/dev/shm") and os.access("/dev/shm", os.W_OK):
        p = Path("/dev/shm") / f"reuse-verif-{os.getuid()}"
    else:
        p = Path(tempfile.gettempdir()) / f"reuse-verif-{os.getuid()}"
    p.mkdir(parents=True, exist_ok=True)
    return p


_SCRATCH: Optional[Path] = None


def scratch_dir() -> Path:
    """A per-process scratch directory (created lazily, removed at exit)."""
    global _SCRATCH
    if _SCRATCH is None or not _SCRATCH.exists() or _SCRATCH_PID != os.getpid():
        _new_scratch()
    return _SCRATCH  # type: ignore


_SCRATCH_PID = -1


def _new_scratch() -> None:
    global _SCRATCH, _SCRATCH_PID
    _SCRATCH = Path(tempfile.mkdtemp(prefix=f"p{os.getpid()}-", dir=scratch_base()))
    _SCRATCH_PID = os.getpid()


_FRESH_SEQ: dict = {}


def fresh_dir(name: str = "case") -> Path:
    """A new empty directory <scratch>/<name>-<n>.  The previous one of that
    name is removed, and no path is handed out twice within a process: state
    that the code under test keys on a path (a cache) can then never be hit by
    an unrelated earlier case.  Histories on one path are explored on purpose
    by the checks that own them (C09, C15, C14's re-lint slice)."""
    base = scratch_dir()
    key = (os.getpid(), name)
    n = _FRESH_SEQ.get(key, 0)
    prev = base / f"{name}-{n}"
    if prev.exists() or prev.is_symlink():
        force_rmtree(prev)
    _FRESH_SEQ[key] = n + 1
    d = base / f"{name}-{n + 1}"
    if d.exists() or d.is_symlink():
        force_rmtree(d)
    d.mkdir(parents=True)
    return d


import contextlib
import fcntl


@contextlib.contextmanager
def case_dir(key: Any, name: str = "case"):
    """A scratch directory whose *path* is a deterministic function of the
    case (not of the process): code under test that iterates sets of absolute
    paths then behaves identically in the explorer, in the confirmation re-run
    and in a replay.  An exclusive lock serialises concurrent users."""
    d = scratch_base(stable=True) / f"{name}-{h64(key):016x}"
    lock = open(str(d) + ".lock", "w")
    fcntl.flock(lock, fcntl.LOCK_EX)
    try:
        if d.exists() or d.is_symlink():
            force_rmtree(d)
        d.mkdir(parents=True)
        yield d
    finally:
        if d.exists():
            force_rmtree(d)
        fcntl.flock(lock, fcntl.LOCK_UN)
        lock.close()
        with contextlib.suppress(OSError):
            os.unlink(str(d) + ".lock")


def force_rmtree(p: Path) -> None:
    def onerr(func, path, exc):  # pragma: no cover - root rarely needs it
        try:
            os.chmod(os.path.dirname(path), 0o700)
            os.chmod(path, 0o700)
            func(path)
        except OSError:
            pass

    if p.is_symlink() or p.is_file():
        p.unlink()
    else:
        shutil.rmtree(p, onerror=onerr)


def begin_run() -> Path:
    """Called once by the top-level process of a run: a scratch root for this
    run only, exported to every child; stale roots of dead processes are
    removed on the way (bounded work per run)."""
    import shutil

    if os.environ.get("VERIF_SCRATCH") and not os.environ.get("VERIF_SCRATCH_STABLE"):
        base = Path(os.environ["VERIF_SCRATCH"])   # a base chosen by the caller
        base.mkdir(parents=True, exist_ok=True)
    else:
        base = scratch_base(stable=True)
    os.environ["VERIF_SCRATCH_STABLE"] = str(base)
    n = 0
    with contextlib.suppress(OSError):
        for ent in os.scandir(base):
            m = re.match(r"^(?:p|run)(\d+)-", ent.name)
            if not m or not ent.is_dir(follow_symlinks=False):
                continue
            try:
                os.kill(int(m.group(1)), 0)
                continue  # that process is alive
            except ProcessLookupError:
                pass
            except OSError:
                continue
            shutil.rmtree(ent.path, ignore_errors=True)
            n += 1
            if n >= 5000:
                break
    root = Path(tempfile.mkdtemp(prefix=f"run{os.getpid()}-", dir=base))
    os.environ["VERIF_SCRATCH"] = str(root)
    return root


def end_run(root: Path) -> None:
    import shutil

    cleanup_scratch()
    shutil.rmtree(root, ignore_errors=True)
    if os.environ.get("VERIF_SCRATCH") == str(root):
        os.environ.pop("VERIF_SCRATCH", None)


def cleanup_scratch() -> None:
    global _SCRATCH
    if _SCRATCH is not None and _SCRATCH_PID == os.getpid() and _SCRATCH.exists():
        force_rmtree(_SCRATCH)
    _SCRATCH = None


# --------------------------------------------------------------------------
# canonical hashing


def canon(obj: Any) -> str:
    return json.dumps(obj, sort_keys=True, ensure_ascii=True, default=_default)


def _default(o: Any) -> Any:
    if isinstance(o, (set, frozenset)):
        return sorted(o, key=canon)
    if isinstance(o, bytes):
        return {"hex": o.hex()}
    if isinstance(o, tuple):
        return list(o)
    if isinstance(o, Path):
        return str(o)
    return repr(o)


def h64(obj: Any) -> int:
    s = obj if isinstance(obj, str) else canon(obj)
    return int.from_bytes(hashlib.sha1(s.encode("utf-8", "surrogatepass")).digest()[:8], "big")


# --------------------------------------------------------------------------
# per-case result


class R:
    """Result of evaluating one case."""

    __slots__ = ("nontrivial", "outcome", "viol", "states", "transitions",
                 "validated", "evals", "state_keys", "notes", "tags", "counters")

    def __init__(self, nontrivial: bool = True, outcome: Any = "ok"):
        self.nontrivial = nontrivial
        self.outcome = outcome
        self.viol: list[dict] = []
        self.states = 1
        self.transitions = 1
        self.validated = 1
        self.evals = 1
        self.state_keys: Optional[list] = None  # extra canonical state keys
        self.notes: list[str] = []
        self.tags: list[str] = []  # vacuity tags ("lint-exit-1", ...)
        self.counters: dict[str, int] = {}

    def violation(self, signature: str, message: str, **extra: Any) -> None:
        self.viol.append({"signature": signature, "message": message, **extra})


class Stats:
    def __init__(self) -> None:
        self.evaluations = 0
        self.cases = 0
        self.transitions = 0
        self.validated = 0
        self.state_hashes: set[int] = set()
        self.nontrivial_hashes: set[int] = set()
        self.outcomes: Counter = Counter()
        self.tags: Counter = Counter()
        self.violations: list[dict] = []  # {signature,message,case,...}
        self.viol_count = 0
        self.viol_by_sig: Counter = Counter()
        self.samples: list = []
        self.harness_errors: list[str] = []
        self.notes: Counter = Counter()
        self.counters: Counter = Counter()
        self.caps_hit: list[str] = []
        self.extra: dict[str, Any] = {}

    def merge(self, o: "Stats") -> None:
        self.evaluations += o.evaluations
        self.cases += o.cases
        self.transitions += o.transitions
        self.validated += o.validated
        self.state_hashes |= o.state_hashes
        self.nontrivial_hashes |= o.nontrivial_hashes
        self.outcomes.update(o.outcomes)
        self.tags.update(o.tags)
        self.viol_count += o.viol_count
        self.viol_by_sig.update(o.viol_by_sig)
        for v in o.violations:
            self._keep(v)
        for s in o.samples:
            if len(self.samples) < 6:
                self.samples.append(s)
        self.harness_errors.extend(o.harness_errors[:5])
        self.notes.update(o.notes)
        self.counters.update(o.counters)
        for c in o.caps_hit:
            if c not in self.caps_hit:
                self.caps_hit.append(c)

    KEEP_PER_SIG = 2

    def _keep(self, v: dict) -> None:
        n = sum(1 for x in self.violations if x["signature"] == v["signature"])
        if n < self.KEEP_PER_SIG and len(self.violations) < 400:
            self.violations.append(v)

    def add(self, case: Any, r: R, sample_every: int = 0) -> None:
        self.cases += 1
        self.evaluations += r.evals
        self.transitions += r.transitions
        self.validated += r.validated
        keys = r.state_keys if r.state_keys is not None else [case]
        hs = [h64(k) for k in keys]
        self.state_hashes.update(hs)
        if r.nontrivial:
            self.nontrivial_hashes.update(hs[:1] if r.state_keys is None else hs)
        self.outcomes[r.outcome if isinstance(r.outcome, str) else canon(r.outcome)] += 1
        for t in r.tags:
            self.tags[t] += 1
        for n in r.notes:
            self.notes[n] += 1
        if r.counters:
            self.counters.update(r.counters)
        for v in r.viol:
            self.viol_count += 1
            self.viol_by_sig[v["signature"]] += 1
            vv = dict(v)
            vv["case"] = case
            self._keep(vv)
        if len(self.samples) < 3 or (r.viol and len(self.samples) < 6):
            self.samples.append(case)


# --------------------------------------------------------------------------
# sharded exploration


import signal

CASE_TIMEOUT = int(os.environ.get("VERIF_CASE_TIMEOUT", "600"))


class _CaseTimeout(BaseException):
    pass


def _on_alarm(signum, frame):
    raise _CaseTimeout()


def _worker(args):
    signal.signal(signal.SIGALRM, _on_alarm)
    (mod_name, wid, nworkers, tier, seed, gen_name, eval_name) = args
    import importlib

    mod = importlib.import_module(mod_name)
    st = Stats()
    gen = getattr(mod, gen_name)
    ev = getattr(mod, eval_name)
    deadline = float(os.environ.get("VERIF_DEADLINE", "0")) or None
    try:
        if hasattr(mod, "setup_worker"):
            mod.setup_worker()
        for idx, case in enumerate(gen(tier, seed)):
            if (idx + seed) % nworkers != wid:
                continue
            if deadline and time.time() > deadline:
                st.caps_hit.append(f"time cap hit in worker {wid} at case index {idx}")
                break
            try:
                signal.alarm(CASE_TIMEOUT)
                try:
                    r = ev(case)
                finally:
                    signal.alarm(0)
            except _CaseTimeout:
                st.harness_errors.append(f"case did not finish within {CASE_TIMEOUT}s (a command under test blocks?): {canon(case)[:400]}")
                continue
            except HarnessError as e:
                st.harness_errors.append(f"{type(e).__name__}: {e} on case {canon(case)[:400]}")
                if len(st.harness_errors) > 20:
                    break
                continue
            except Exception:  # harness bug
                st.harness_errors.append(traceback.format_exc()[-1500:] + f"\n on case {canon(case)[:400]}")
                if len(st.harness_errors) > 20:
                    break
                continue
            st.add(case, r)
    finally:
        cleanup_scratch()
    return st


def explore(mod_name: str, tier: str, seed: int, gen_name: str = "cases",
            eval_name: str = "evaluate", nworkers: Optional[int] = None) -> Stats:
    """Run ``evaluate`` on every case of ``cases(tier, seed)``, sharded over
    forked workers by case index.  Complete by construction: every index is
    owned by exactly one worker."""
    n = nworkers or NWORKERS
    total = Stats()
    if n <= 1:
        total.merge(_worker((mod_name, 0, 1, tier, seed, gen_name, eval_name)))
        return total
    ctx = mp.get_context("fork")
    with ctx.Pool(n) as pool:
        for st in pool.imap_unordered(
            _worker, [(mod_name, w, n, tier, seed, gen_name, eval_name) for w in range(n)]
        ):
            total.merge(st)
    return total


def pmap(fn: Callable, items: list, nworkers: Optional[int] = None, chunksize: int = 1) -> list:
    """Deterministic parallel map with forked workers (order preserved)."""
    n = nworkers or NWORKERS
    if n <= 1 or len(items) <= 1:
        return [fn(x) for x in items]
    ctx = mp.get_context("fork")
    with ctx.Pool(min(n, len(items))) as pool:
        return pool.map(fn, items, chunksize)


# --------------------------------------------------------------------------
# known findings


def load_known(prop: str) -> dict[str, dict]:
    if not KNOWN_FILE.exists():
        return {}
    data = json.loads(KNOWN_FILE.read_text())
    out = {}
    for e in data.get("findings", []):
        if e.get("property") == prop and e.get("status") == "known":
            out[e["signature"]] = e
    return out


# --------------------------------------------------------------------------
# finishing a run: confirm, report, evidence


def write_replay(prop: str, module: str, evaluator: str, v: dict) -> Path:
    d = REPLAY_DIR / prop
    d.mkdir(parents=True, exist_ok=True)
    body = {
        "property": prop,
        "module": module,
        "evaluate": evaluator,
        "case": v["case"],
        "signature": v["signature"],
        "message": v["message"],
        "how_to_replay": f"cd /verif && {PY} -m mc.replay <this file>",
    }
    for k, val in v.items():
        if k not in body and k not in ("case",):
            body[k] = val
    name = hashlib.sha1(canon([v["signature"], v["case"]]).encode()).hexdigest()[:16]
    p = d / f"{name}.json"
    p.write_text(canon(body) + "\n")
    return p


def confirm_in_process(module: str, evaluator: str, v: dict) -> Optional[bool]:
    import importlib

    mod = importlib.import_module(module)
    try:
        r = getattr(mod, evaluator)(json.loads(canon(v["case"])))
    except Exception:
        return None
    return any(x["signature"] == v["signature"] for x in r.viol)


def confirm_subprocess(path: Path) -> Optional[bool]:
    env = dict(os.environ)
    env["PYTHONHASHSEED"] = "0"
    p = subprocess.run([PY, "-m", "mc.replay", str(path)], cwd=str(VERIF), env=env,
                       capture_output=True, text=True, timeout=600)
    if p.returncode == 1 and "REPRODUCED" in p.stdout:
        return True
    if p.returncode == 0:
        return False
    return None


def finish(prop: str, level: str, module: str, tier: str, seed: int, st: Stats,
           t0: float, rule: str, bounds: dict, assumptions: list[str],
           evaluator: str = "evaluate", exhaustive: bool = True,
           vacuity: Optional[Callable[[Stats], Optional[str]]] = None,
           extra_cov: Optional[dict] = None, sub_confirm: bool = True) -> int:
    """Confirm candidate violations, match known findings, print the protocol
    lines, write the evidence file; returns the exit status."""
    known = load_known(prop)
    broken: list[str] = []
    if st.harness_errors:
        broken.append(f"{len(st.harness_errors)} harness error(s); first:\n{st.harness_errors[0]}")

    confirmed: dict[str, tuple[dict, Path]] = {}
    sigs_seen = list(st.viol_by_sig)
    sub_budget = 40
    for v in st.violations:
        sig = v["signature"]
        if sig in confirmed:
            continue
        ok = confirm_in_process(module, evaluator, v)
        if ok is not True:
            broken.append(f"HARNESS-NONDETERMINISM: signature {sig!r} did not reproduce in-process ({ok}) on case {canon(v['case'])[:300]}")
            continue
        path = write_replay(prop, module, evaluator, v)
        if sub_confirm and sub_budget > 0 and sig not in known:
            sub_budget -= 1
            ok2 = confirm_subprocess(path)
            if ok2 is not True:
                broken.append(f"HARNESS-NONDETERMINISM: signature {sig!r} did not reproduce in a fresh process ({ok2}); replay={path}")
                continue
        confirmed[sig] = (v, path)

    new_sigs = [s for s in sigs_seen if s not in known]
    known_seen = [s for s in sigs_seen if s in known]
    for s in known_seen:
        print(f"KNOWN-FINDING: property={prop} {known[s]['what_fails']} [signature={s}; {st.viol_by_sig[s]} case(s)]")
    exit_code = EXIT_OK
    printed = 0
    for s in new_sigs:
        if s in confirmed:
            v, path = confirmed[s]
            exit_code = EXIT_VIOLATION
            printed += 1
            if printed <= 30:
                print(f"VIOLATION property={prop} replay={path}")
                print(f"  signature={s} cases={st.viol_by_sig[s]}: {v['message'][:600]}")
    if printed > 30:
        print(f"  ... and {printed - 30} more distinct violation signatures (see evidence file)")
    unconfirmed = [s for s in new_sigs if s not in confirmed and not any(s in b for b in broken)]
    for s in unconfirmed:
        # more signatures than were retained for confirmation: still a failure
        exit_code = EXIT_VIOLATION
        if printed <= 30:
            print(f"VIOLATION property={prop} replay={REPLAY_DIR / prop} (signature={s}, {st.viol_by_sig[s]} case(s); no replay file retained)")
            printed += 1
    if st.caps_hit:
        exhaustive = False
    vac = None
    if vacuity is not None and not broken:
        vac = vacuity(st)
        if vac:
            broken.append("VACUOUS: " + vac)
    if len(st.outcomes) < 2 and not broken and vacuity is None:
        broken.append("VACUOUS: fewer than 2 distinct outcomes")

    cov = {
        "states": len(st.state_hashes),
        "transitions": st.transitions,
        "traces_validated_against_impl": st.validated,
        "samples": st.samples[:6] or ["<none>"],
        "evaluations": st.evaluations,
        "distinct_nontrivial": len(st.nontrivial_hashes),
        "rule": rule,
        "exhaustive": bool(exhaustive),
        "bounds": bounds,
        "cases": st.cases,
        "distinct_outcomes": len(st.outcomes),
        "outcome_histogram": dict(st.outcomes.most_common(12)),
        "tags": dict(st.tags),
        "notes": dict(st.notes.most_common(20)),
        "counters": dict(st.counters),
        "known_findings_seen": {s: st.viol_by_sig[s] for s in known_seen},
        "new_violation_signatures": {s: st.viol_by_sig[s] for s in new_sigs},
        "caps_hit": st.caps_hit,
    }
    cov.update(st.extra)
    if extra_cov:
        cov.update(extra_cov)
    ev = {
        "property_id": prop,
        "tier": tier,
        "seed": seed,
        "level": level,
        "coverage": cov,
        "assumptions": assumptions,
        "wall_s": round(time.time() - t0, 2),
        "violations": sum(st.viol_by_sig[s] for s in new_sigs),
    }
    EVIDENCE_DIR.mkdir(exist_ok=True)
    evpath = EVIDENCE_DIR / f"{prop}.json"
    evpath.write_text(json.dumps(ev, indent=1, sort_keys=True, default=_default) + "\n")
    err = validate_evidence(evpath)
    if err:
        broken.append("evidence file invalid: " + err)
    print(f"[{prop}] tier={tier} seed={seed} cases={st.cases} evaluations={st.evaluations} "
          f"states={cov['states']} transitions={cov['transitions']} validated={cov['traces_validated_against_impl']} "
          f"nontrivial={cov['distinct_nontrivial']} outcomes={cov['distinct_outcomes']} "
          f"known={len(known_seen)} new={len(new_sigs)} exhaustive={cov['exhaustive']} wall={ev['wall_s']}s")
    if broken:
        for b in broken:
            print("CHECK-BROKEN: " + b, file=sys.stderr)
        if exit_code == EXIT_OK:
            return EXIT_BROKEN
    return exit_code


def validate_evidence(path: Path) -> Optional[str]:
    schema = "/root/.vp/EVIDENCE.schema.json"
    try:
        data = json.loads(path.read_text())
    except Exception as e:  # pragma: no cover
        return f"not JSON: {e}"
    for k in ("property_id", "tier", "seed", "level", "coverage", "wall_s"):
        if k not in data:
            return f"missing key {k}"
    c = data["coverage"]
    if not (c.get("states", 0) >= 1 and c.get("transitions", 0) >= 1 and c.get("samples")):
        return "coverage lacks states/transitions/samples"
    if not (c.get("evaluations", 0) >= 1 and c.get("distinct_nontrivial", 0) >= 2):
        return "coverage lacks evaluations>=1 / distinct_nontrivial>=2"
    vt = shutil.which("python3-vt")
    if vt and os.path.exists(schema):
        code = ("import json,sys,jsonschema;"
                "jsonschema.validate(json.load(open(sys.argv[1])),json.load(open(sys.argv[2])))")
        p = subprocess.run([vt, "-c", code, str(path), schema], capture_output=True, text=True)
        if p.returncode != 0:
            return (p.stderr or p.stdout)[-600:]
    return None
