"""E4: regular-expression automata and complete product exploration.

* ``from_regex(pattern, flags)`` turns the parse tree of a Python ``re``
  pattern into an epsilon-NFA (Thompson construction) — only the constructs
  listed in DESIGN.md; anything else raises HarnessGap.
* ``Lang`` wraps an NFA with the acceptance semantics of ``Pattern.match`` or
  ``Pattern.fullmatch`` (including ``$`` matching before one final newline)
  and determinises lazily over a symbolic alphabet.
* ``included(A, B, sigma)`` explores the reachable product of the two lazily
  built DFAs completely and returns a shortest word in L(A) \\ L(B), or None.
"""

from __future__ import annotations

import re
from collections import deque
from typing import Iterable, Optional

try:  # Python >= 3.11
    from re import _parser as sre_parse  # type: ignore
    from re import _constants as sre_c  # type: ignore
except ImportError:  # pragma: no cover
    import sre_parse  # type: ignore
    import sre_constants as sre_c  # type: ignore

from .core import HarnessGap


class NFA:
    def __init__(self):
        self.n = 0
        self.char: dict[int, list] = {}  # q -> [(pred, q')]
        self.eps: dict[int, list] = {}  # q -> [(kind, q')]
        self.start = -1
        self.final = -1
        self.mentioned: set[str] = set()

    def new(self) -> int:
        self.n += 1
        return self.n - 1

    def add_char(self, a: int, pred, b: int) -> None:
        self.char.setdefault(a, []).append((pred, b))

    def add_eps(self, a: int, b: int, kind: str = "eps") -> None:
        self.eps.setdefault(a, []).append((kind, b))


# ---- predicates ----------------------------------------------------------
# ('lit', c) ('notlit', c) ('any',)  -> any but newline   ('all',) -> any char
# ('in', negate, (items...)) items: ('c', ch) | ('r', lo, hi)


def pred_match(pred, ch: str) -> bool:
    k = pred[0]
    if k == "lit":
        return ch == pred[1]
    if k == "notlit":
        return ch != pred[1]
    if k == "any":
        return ch != "\n"
    if k == "all":
        return True
    if k == "in":
        hit = False
        for it in pred[2]:
            if it[0] == "c":
                if ch == it[1]:
                    hit = True
                    break
            elif it[1] <= ch <= it[2]:
                hit = True
                break
        return hit != pred[1]
    raise HarnessGap(f"unknown predicate {pred}")


# ---- Thompson fragments --------------------------------------------------


class Builder:
    """Small combinator layer shared by the regex translator and by the
    hand-written reference languages."""

    def __init__(self):
        self.nfa = NFA()

    def atom(self, pred):
        a, b = self.nfa.new(), self.nfa.new()
        self.nfa.add_char(a, pred, b)
        self._mention(pred)
        return a, b

    def _mention(self, pred):
        m = self.nfa.mentioned
        if pred[0] in ("lit", "notlit"):
            m.add(pred[1])
        elif pred[0] == "in":
            for it in pred[2]:
                if it[0] == "c":
                    m.add(it[1])
                else:
                    for o in (ord(it[1]) - 1, ord(it[1]), ord(it[2]), ord(it[2]) + 1):
                        if 0 < o < 0x110000:
                            m.add(chr(o))

    def empty(self):
        a = self.nfa.new()
        return a, a

    def assertion(self, kind: str):
        a, b = self.nfa.new(), self.nfa.new()
        self.nfa.add_eps(a, b, kind)
        return a, b

    def cat(self, frags):
        frags = list(frags)
        if not frags:
            return self.empty()
        a, b = frags[0]
        for c, d in frags[1:]:
            self.nfa.add_eps(b, c)
            b = d
        return a, b

    def alt(self, frags):
        a, b = self.nfa.new(), self.nfa.new()
        for c, d in frags:
            self.nfa.add_eps(a, c)
            self.nfa.add_eps(d, b)
        return a, b

    def star(self, frag):
        a, b = self.nfa.new(), self.nfa.new()
        c, d = frag
        self.nfa.add_eps(a, c)
        self.nfa.add_eps(d, b)
        self.nfa.add_eps(a, b)
        self.nfa.add_eps(d, c)
        return a, b

    def opt(self, frag):
        a, b = self.nfa.new(), self.nfa.new()
        c, d = frag
        self.nfa.add_eps(a, c)
        self.nfa.add_eps(d, b)
        self.nfa.add_eps(a, b)
        return a, b

    def finish(self, frag) -> NFA:
        self.nfa.start, self.nfa.final = frag
        return self.nfa


def from_regex(pattern: str, flags: int = 0) -> NFA:
    tree = sre_parse.parse(pattern, flags)
    fl = tree.state.flags if hasattr(tree, "state") else tree.pattern.flags
    if fl & (re.IGNORECASE | re.MULTILINE | re.VERBOSE | re.LOCALE):
        raise HarnessGap(f"regex flags {fl} not modelled")
    b = Builder()
    frag = _seq(b, tree, bool(fl & re.DOTALL))
    return b.finish(frag)


def _seq(b: Builder, items, dotall: bool):
    return b.cat([_node(b, op, av, dotall) for op, av in items])


def _node(b: Builder, op, av, dotall: bool):
    if op is sre_c.LITERAL:
        return b.atom(("lit", chr(av)))
    if op is sre_c.NOT_LITERAL:
        return b.atom(("notlit", chr(av)))
    if op is sre_c.ANY:
        return b.atom(("all",) if dotall else ("any",))
    if op is sre_c.IN:
        negate = False
        items = []
        for iop, iav in av:
            if iop is sre_c.NEGATE:
                negate = True
            elif iop is sre_c.LITERAL:
                items.append(("c", chr(iav)))
            elif iop is sre_c.RANGE:
                items.append(("r", chr(iav[0]), chr(iav[1])))
            else:
                raise HarnessGap(f"character-class item {iop} not modelled")
        return b.atom(("in", negate, tuple(items)))
    if op is sre_c.SUBPATTERN:
        _group, add_flags, del_flags, sub = av
        if (add_flags | del_flags) & ~re.DOTALL:
            raise HarnessGap("scoped flags other than DOTALL not modelled")
        d = (dotall or bool(add_flags & re.DOTALL)) and not (del_flags & re.DOTALL)
        return _seq(b, sub, d)
    if op is sre_c.BRANCH:
        return b.alt([_seq(b, alt, dotall) for alt in av[1]])
    if op in (sre_c.MAX_REPEAT, sre_c.MIN_REPEAT):
        lo, hi, sub = av
        frags = [_seq(b, sub, dotall) for _ in range(lo)]
        if hi is sre_c.MAXREPEAT:
            frags.append(b.star(_seq(b, sub, dotall)))
        else:
            if hi - lo > 8:
                raise HarnessGap("large bounded repeat not modelled")
            for _ in range(hi - lo):
                frags.append(b.opt(_seq(b, sub, dotall)))
        return b.cat(frags)
    if op is sre_c.AT:
        if av in (sre_c.AT_BEGINNING, sre_c.AT_BEGINNING_STRING):
            return b.assertion("bol")
        if av is sre_c.AT_END:
            return b.assertion("eol")
        if av is sre_c.AT_END_STRING:
            return b.assertion("eos")
        raise HarnessGap(f"assertion {av} not modelled")
    raise HarnessGap(f"regex construct {op} not modelled")


# ---- language with Python acceptance semantics ---------------------------

TOP = "TOP"  # accept-everything sink (a prefix already matched under match())
F = -1  # pseudo NFA state: pattern finished


class Lang:
    """An NFA plus 'match' | 'fullmatch' acceptance.  DFA states are
    frozensets of (nfa_state, c) with c the pending end-of-input constraint:
    0 none, 1 'rest is empty or exactly one newline' (after $), 2 'rest is
    empty' (after \\Z, or after $ and a consumed newline)."""

    def __init__(self, nfa: NFA, mode: str):
        assert mode in ("match", "fullmatch")
        self.nfa = nfa
        self.mode = mode
        self._closure_cache: dict = {}
        self._step_cache: dict = {}
        self.initial = self._close({(nfa.start, 0)}, True)

    def _close(self, conf: set, at_start: bool):
        nfa = self.nfa
        seen = set(conf)
        stack = list(conf)
        while stack:
            q, c = stack.pop()
            if q == nfa.final:
                t = (F, c)
                if t not in seen:
                    seen.add(t)
            for kind, q2 in nfa.eps.get(q, ()):  # F has none
                if kind == "eps":
                    t = (q2, c)
                elif kind == "bol":
                    if not at_start:
                        continue
                    t = (q2, c)
                elif kind == "eol":
                    t = (q2, max(c, 1))
                elif kind == "eos":
                    t = (q2, 2)
                else:  # pragma: no cover
                    raise HarnessGap(kind)
                if t not in seen:
                    seen.add(t)
                    stack.append(t)
        if self.mode == "match" and (F, 0) in seen:
            return TOP
        return frozenset(seen)

    def step(self, state, ch: str):
        if state is TOP:
            return TOP
        key = (state, ch)
        r = self._step_cache.get(key)
        if r is not None:
            return r
        nxt = set()
        for q, c in state:
            if c == 2:
                continue
            if c == 1 and ch != "\n":
                continue
            c2 = 2 if c == 1 else 0
            if q == F:
                if self.mode == "match" and c == 1:
                    nxt.add((F, 2))
                continue
            for pred, q2 in self.nfa.char.get(q, ()):
                if pred_match(pred, ch):
                    nxt.add((q2, c2))
        r = self._close(nxt, False) if nxt else frozenset()
        self._step_cache[key] = r
        return r

    def accepting(self, state) -> bool:
        if state is TOP:
            return True
        return any(q == F for q, _c in state)

    def accepts(self, word: str) -> bool:
        s = self.initial
        for ch in word:
            s = self.step(s, ch)
            if s is TOP:
                return True
            if not s:
                return False
        return self.accepting(s)


def sigma_for(*nfas: NFA, extra: Iterable[str] = ()) -> list[str]:
    s = set(extra)
    for n in nfas:
        s |= n.mentioned
    s |= {"/", "\n"}
    for cand in "~\x01\x02\x03\x04\x05\x06\x07":
        if cand not in s:
            s.add(cand)
            break
    else:  # pragma: no cover
        raise HarnessGap("no fresh character available")
    return sorted(s)


def included(A: Lang, B: Lang, sigma: list[str], stats: Optional[dict] = None) -> Optional[str]:
    """Complete exploration of the reachable product of the two lazily built
    DFAs.  Returns a shortest word accepted by A and rejected by B, or None
    if L(A) is a subset of L(B) (over sigma*)."""
    start = (A.initial, B.initial)
    seen = {start: None}
    dq = deque([start])
    ntrans = 0
    found = None
    while dq:
        cur = dq.popleft()
        sa, sb = cur
        if A.accepting(sa) and not B.accepting(sb):
            found = cur
            break
        if not sa:  # A is dead: nothing accepted from here
            continue
        if sb is TOP:  # B accepts every extension
            continue
        for ch in sigma:
            na = A.step(sa, ch)
            if not na and na is not TOP:
                ntrans += 1
                continue
            nb = B.step(sb, ch)
            ntrans += 1
            nxt = (na, nb)
            if nxt not in seen:
                seen[nxt] = (cur, ch)
                dq.append(nxt)
    if stats is not None:
        stats["states"] = stats.get("states", 0) + len(seen)
        stats["transitions"] = stats.get("transitions", 0) + ntrans
    if found is None:
        return None
    word = []
    cur = found
    while seen[cur] is not None:
        cur, ch = seen[cur]
        word.append(ch)
    return "".join(reversed(word))


def words(sigma: list[str], maxlen: int):
    """All words over sigma up to maxlen (for conformance replay)."""
    yield ""
    layer = [""]
    for _ in range(maxlen):
        layer = [w + c for w in layer for c in sigma]
        yield from layer


def selftest() -> int:
    """Bind the automaton construction to Python's own matcher: for a fixed
    list of patterns (all constructs the checks rely on, incl. the '$' before a
    final newline, '\\Z', '^', DOTALL groups, lazy and greedy repeats, classes)
    every word up to length 4 over a 5-letter alphabet must get the same
    verdict from Lang and from re.match / re.fullmatch.  Returns the number of
    comparisons; raises HarnessGap on the first disagreement."""
    pats = [r"^(a)$", r"^(a[^/]*)$|^(b.*)$", r"(?:a\.b)", r"(?:a.*/)?b", r"a$", r"a\Z", r"^a.*$", r"(?s:a.*b)", r"a.*?b", r"[ab]+/?", r"[^a/]*b",
            r"(?:a|ab)(?:c|bcd)?", r"a{1,3}b", r"(?:.*/)?[^/]*\.a", r"\*\\", r"(a|b)*abb", r"^$", r"\n?a", r"a\n$", r"(?:)"]
    sigma = ["a", "b", "/", "\n", "."]
    n = 0
    for pat in pats:
        for flags in (0, re.DOTALL):
            nfa = from_regex(pat, flags)
            rx = re.compile(pat, flags)
            for mode, fn in (("match", rx.match), ("fullmatch", rx.fullmatch)):
                lang = Lang(nfa, mode)
                for w in words(sigma, 4):
                    n += 1
                    if lang.accepts(w) != bool(fn(w)):
                        raise HarnessGap(f"automaton self-test: pattern {pat!r} flags {flags} mode {mode} word {w!r}: "
                                         f"Lang says {lang.accepts(w)}, re says {bool(fn(w))}")
    return n
