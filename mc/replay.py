"""Replay one recorded case without the explorer:

    /venv/bin/python -m mc.replay /verif/replays/<ID>/<sha>.json

Rebuilds the case's input from the file, runs the single evaluation on the
real code and prints what it saw.  Exit 1 + 'REPRODUCED' if the recorded
violation signature shows up again, exit 0 otherwise."""

from __future__ import annotations

import importlib
import json
import os
import sys


def main() -> int:
    from .run import FIXED_ENV

    if any(os.environ.get(k) != v for k, v in FIXED_ENV.items()) or os.environ.get("REUSE_VERIF") != "1":
        env = dict(os.environ)
        env.update(FIXED_ENV)
        env["REUSE_VERIF"] = "1"
        os.execve(sys.executable, [sys.executable, "-m", "mc.replay", *sys.argv[1:]], env)
    from . import core

    data = json.loads(open(sys.argv[1]).read())
    mod = importlib.import_module(data["module"])
    run_root = core.begin_run() if not os.environ.get("VERIF_SCRATCH") else None
    try:
        if hasattr(mod, "setup_worker"):
            mod.setup_worker()
        r = getattr(mod, data["evaluate"])(data["case"])
    finally:
        core.cleanup_scratch()
        if run_root is not None:
            core.end_run(run_root)
    print("case:", core.canon(data["case"])[:2000])
    for v in r.viol:
        print("violation:", v["signature"], "--", v["message"][:2000])
    if any(v["signature"] == data["signature"] for v in r.viol):
        print(f"REPRODUCED property={data['property']} signature={data['signature']}")
        return 1
    print("NOT-REPRODUCED (recorded signature %r)" % data["signature"])
    return 0


if __name__ == "__main__":
    sys.exit(main())
