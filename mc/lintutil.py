"""Helpers around `reuse lint --json` shared by the tree-and-lint checks."""
from __future__ import annotations

import json

from .cli import run_cli
from .core import HarnessError


def lint_json(root, extra=(), cwd=None, allow_exit=(0, 1)):
    out = run_cli([*extra, "--root", str(root), "--no-multiprocessing", "lint", "--json"], cwd=cwd)
    if out.exc is not None or out.exit_code not in allow_exit:
        return out, None
    try:
        return out, json.loads(out.stdout)
    except ValueError as e:
        raise HarnessError(f"lint --json output is not JSON: {e}: {out.stdout[:300]!r}")


def file_items(data, path):
    """(copyright items, expression items) of one file as sorted tuples."""
    for f in data["files"]:
        if f["path"] == path:
            c = sorted((x["value"], x["source"], x["source_type"]) for x in f["copyrights"])
            e = sorted((x["value"], x["source"], x["source_type"]) for x in f["spdx_expressions"])
            return c, e
    return None


PNG = bytes([0x89, 0x50, 0x4E, 0x47, 0x0D, 0x0A, 0x1A, 0x0A]) + bytes(range(256)) * 2
PNG_HEX = PNG.hex()
