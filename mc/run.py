"""Entry point:  /venv/bin/python -m mc.run <ID> [--tier quick|thorough]

Re-executes itself once with a fixed environment (PYTHONHASHSEED=0, C locale,
UTC) so that every worker is deterministic, then dispatches to
mc.checks.<id>.run(tier, seed)."""

from __future__ import annotations

import argparse
import importlib
import os
import sys
import time
import traceback

FIXED_ENV = {"PYTHONHASHSEED": "0", "LC_ALL": "C", "LANGUAGE": "", "LANG": "C", "TZ": "UTC",
             "PYTHONDONTWRITEBYTECODE": "1", "GIT_CONFIG_GLOBAL": "/dev/null",
             "GIT_CONFIG_NOSYSTEM": "1", "PYTHONWARNINGS": "ignore"}


def main() -> int:
    ap = argparse.ArgumentParser()
    ap.add_argument("prop")
    ap.add_argument("--tier", default=os.environ.get("VERIF_TIER") or "quick",
                    choices=["quick", "thorough"])
    ap.add_argument("--seed", type=int, default=None)
    ap.add_argument("--budget", type=float, default=None,
                    help="wall-clock cap in seconds (reported as a cap, never silently)")
    a = ap.parse_args()
    if any(os.environ.get(k) != v for k, v in FIXED_ENV.items()) or os.environ.get("REUSE_VERIF") != "1":
        env = dict(os.environ)
        env.update(FIXED_ENV)
        env["REUSE_VERIF"] = "1"
        os.execve(sys.executable, [sys.executable, "-m", "mc.run", *sys.argv[1:]], env)
    seed = a.seed if a.seed is not None else int(os.environ.get("VERIF_SEED", "0") or 0)
    prop = a.prop.upper()
    if a.budget:
        os.environ["VERIF_DEADLINE"] = str(time.time() + a.budget)
    from . import core

    try:
        mod = importlib.import_module(f"mc.checks.{prop.lower()}")
    except ModuleNotFoundError:
        print(f"CHECK-BROKEN: no check for {prop}", file=sys.stderr)
        return core.EXIT_BROKEN
    run_root = core.begin_run()
    try:
        rc = mod.run(a.tier, seed)
    except core.HarnessError as e:
        print(f"CHECK-BROKEN: {type(e).__name__}: {e}", file=sys.stderr)
        rc = core.EXIT_BROKEN
    except Exception:
        traceback.print_exc()
        print("CHECK-BROKEN: harness exception", file=sys.stderr)
        rc = core.EXIT_BROKEN
    finally:
        core.end_run(run_root)
    return rc


if __name__ == "__main__":
    sys.exit(main())
