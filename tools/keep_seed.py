#!/venv/bin/python
"""keep_seed.py <PROP> <k> [check ids...]
Confirm a sub-agent's seeded defect (/tmp/seed/<PROP>/patch<k>.diff, demo<k>.py, meta<k>.json) in a fresh scratch
worktree of /repo HEAD: patch applies, demo passes without / fails with the patch, pinned suite still passes with it.
Then run the named quick checks (default: the property's own) against /repo with the patch applied and reverted, and
store everything under /verif/seeded/<PROP>-<k>/."""
import json, os, shutil, subprocess, sys, tempfile
prop, k = sys.argv[1], sys.argv[2]
checks = sys.argv[3:] or [prop]
src = f"/tmp/seed/{prop}"
patch, demo, meta = f"{src}/patch{k}.diff", f"{src}/demo{k}.py", f"{src}/meta{k}.json"
wt = tempfile.mkdtemp(prefix="keepseed-", dir="/tmp")
os.rmdir(wt)
def sh(cmd, **kw):
    return subprocess.run(cmd, shell=True, capture_output=True, text=True, **kw)
res = {"property": prop, "k": k}
try:
    assert sh(f"git -C /repo worktree add -q --detach {wt} HEAD").returncode == 0
    env = dict(os.environ, PYTHONPATH=f"{wt}/src")
    env.pop("REUSE_VERIF", None)
    d0 = sh(f"/venv/bin/python {demo}", env=env, cwd=wt)
    res["demo_without_patch_rc"] = d0.returncode
    ap = sh(f"git -C {wt} apply {patch}")
    res["patch_applies"] = ap.returncode == 0
    if ap.returncode != 0:
        print("PATCH DOES NOT APPLY to current HEAD:", ap.stderr[:300]); print(json.dumps(res)); sys.exit(3)
    d1 = sh(f"/venv/bin/python {demo}", env=env, cwd=wt)
    res["demo_with_patch_rc"] = d1.returncode
    res["demo_with_patch_out"] = (d1.stdout + d1.stderr)[-400:]
    b = sh(f"/verif/tools/baseline.py {wt}")
    res["suite_with_patch"] = b.stdout.strip().splitlines()[0] if b.stdout else b.stderr[-200:]
    res["suite_ok"] = b.returncode == 0
finally:
    sh(f"git -C /repo worktree remove --force {wt}")
    shutil.rmtree(wt, ignore_errors=True)
ok = res["demo_without_patch_rc"] == 0 and res["demo_with_patch_rc"] != 0 and res["suite_ok"]
res["confirmed"] = ok
if not ok:
    print("NOT CONFIRMED:", json.dumps(res, indent=1)); sys.exit(2)
t = sh(f"/verif/tools/try_seed.sh {patch} {' '.join(checks)}")
res["checks_run"] = checks
res["detected"] = t.returncode == 1
per = {c: ("VIOLATION (exit 1)" if f"== {c} rc=1" in t.stdout else ("check broken (exit 2)" if f"== {c} rc=2" in t.stdout else "silent (exit 0)")) for c in checks}
res["check_output"] = t.stdout[-1500:]
out = f"/verif/seeded/{prop}-{k}"
os.makedirs(out, exist_ok=True)
shutil.copy(patch, f"{out}/patch.diff"); shutil.copy(demo, f"{out}/demo.py")
m = json.load(open(meta)) if os.path.exists(meta) else {}
m.update({"property": prop, "ran": {"demo_without_patch": "exit 0", "demo_with_patch": f"exit {res['demo_with_patch_rc']}",
          "suite_with_patch": res["suite_with_patch"], "quick_checks_with_patch": per},
          "detected_by": [c for c in checks if per[c].startswith("VIOLATION")], "also_checks": [c for c in checks if c != prop], "repo_head": sh("git -C /repo rev-parse --short HEAD").stdout.strip()})
json.dump(m, open(f"{out}/meta.json", "w"), indent=1)
print(("DETECTED " if res["detected"] else "MISSED ") + f"{prop}-{k}: {m.get('summary','')[:150]}")
print(res["check_output"][-700:])
