#!/venv/bin/python
"""Re-run every kept seeded defect (/verif/seeded/<id>/patch.diff) against the current /repo HEAD with the quick check(s) of its
property (plus any extra checks named in meta.json 'also_checks') and print a table.  Patches that no longer apply are reported."""
import json, os, subprocess, sys
rows = []
only = set(sys.argv[1:])
for d in sorted(os.listdir("/verif/seeded")):
    p = f"/verif/seeded/{d}"
    if not os.path.isdir(p) or (only and d not in only and d.split("-")[0] not in only):
        continue
    meta = json.load(open(f"{p}/meta.json"))
    checks = [meta["property"]] + meta.get("also_checks", [])
    t = subprocess.run(["/verif/tools/try_seed.sh", f"{p}/patch.diff", *checks], capture_output=True, text=True)
    if "PATCH DOES NOT APPLY" in t.stdout:
        res = "patch-does-not-apply"
    else:
        det = [c for c in checks if f"== {c} rc=1" in t.stdout]
        broken = [c for c in checks if f"== {c} rc=2" in t.stdout]
        res = ("detected by " + ",".join(det)) if det else ("CHECK-BROKEN " + ",".join(broken) if broken else "MISSED")
    rows.append((d, res, meta.get("summary", "")[:110]))
    print(f"{d:8s} {res:28s} {meta.get('summary','')[:110]}", flush=True)
json.dump(rows, open("/verif/seeded/RESULTS.json", "w"), indent=1)
