#!/venv/bin/python
"""Re-run every kept seeded defect (/verif/seeded/<id>/patch.diff) against the current /repo HEAD: the patch is applied to /repo, the quick
check of its property (then those named in meta.json 'also_checks') is run until one reports a violation, and the patch is undone straight
afterwards.  Prints a table and writes seeded/RESULTS.json.  Patches that no longer apply are reported.  /repo must be clean and must not
be used by anything else meanwhile."""
import json, os, subprocess, sys
rows = []
only = set(sys.argv[1:])
previous = []
if only and os.path.exists("/verif/seeded/RESULTS.json"):
    # a partial run updates the rows of the seeds it ran and keeps the others
    previous = json.load(open("/verif/seeded/RESULTS.json"))
if subprocess.run("git -C /repo status --porcelain -- src", shell=True, capture_output=True, text=True).stdout.strip():
    sys.exit("/repo has uncommitted changes under src; refusing")
for d in sorted(os.listdir("/verif/seeded")):
    p = f"/verif/seeded/{d}"
    if not os.path.isdir(p) or (only and d not in only and d.split("-")[0] not in only):
        continue
    meta = json.load(open(f"{p}/meta.json"))
    if meta.get("obsolete"):
        rows.append((d, "obsolete", meta["obsolete"][:110]))
        print(f"{d:8s} {'obsolete':28s} {meta['obsolete'][:110]}", flush=True)
        continue
    checks = [meta["property"]] + [c for c in meta.get("also_checks", []) if c != meta["property"]]
    patch = f"{p}/patch.diff"
    if subprocess.run(["git", "-C", "/repo", "apply", "--check", patch], capture_output=True).returncode != 0:
        res = "patch-does-not-apply"
    else:
        subprocess.run(["git", "-C", "/repo", "apply", patch], check=True)
        try:
            outcome = {}
            for c in checks:
                t = subprocess.run(["/venv/bin/python", "-m", "mc.run", c, "--tier", "quick"], cwd="/verif", capture_output=True, text=True,
                                   env=dict(os.environ, VERIF_SEED=os.environ.get("VERIF_SEED", "0")))
                outcome[c] = t.returncode
                if t.returncode == 1:
                    break
        finally:
            subprocess.run(["git", "-C", "/repo", "checkout", "--", "."], check=True)
        det = [c for c, rc in outcome.items() if rc == 1]
        broken = [c for c, rc in outcome.items() if rc not in (0, 1)]
        res = ("detected by " + ",".join(det)) if det else ("CHECK-BROKEN " + ",".join(broken) if broken else "MISSED")
    rows.append((d, res, meta.get("summary", "")[:110]))
    print(f"{d:8s} {res:28s} {meta.get('summary','')[:110]}", flush=True)
    done = {r[0] for r in rows}
    json.dump(sorted([list(r) for r in previous if r[0] not in done] + [list(r) for r in rows]), open("/verif/seeded/RESULTS.json", "w"), indent=1)
