#!/venv/bin/python
"""Regenerate /verif/MANIFEST.json from the table below (only checks whose
module exists under mc/checks are claimed; the rest go to not_applicable)."""
import json, os, sys
V = "/verif"
BASE = json.load(open("/root/.vp/BASELINE.json"))["cmd"]

CHECKS = {
 # id: (category, technique, text, note, design_ref)
 "C12": ("model_checking", "explicit-state enumeration of all token sequences <= n, differential against a two-state reference scanner",
         "every marker/tag/word/newline token sequence up to the bound (6 quick, 8 thorough) in 4 renderings is run through the real extract_reuse_info and compared with a two-state reference scanner; short sequences and big snippet files with blocks across multiples of 4096 also go through `reuse lint`; complete within the bound",
         "alphabet of 7 tokens; tag grammar itself trusted to C02", "4/C12"),
 "C05": ("model_checking", "regex-to-automaton extraction + complete product exploration against reference automata (language inclusion), model bound to the code by exhaustive short-path replay",
         "for every glob over {a . / * \\} up to length 6 (quick) / 8 (thorough) and every pair of globs of length <= 2, the automaton of the regex the real code compiles is compared with the narrow/wide reference automata by exploring the whole reachable product (paths of any length); every path of length <= 3 (5 on a slice) and every counterexample is replayed on the real matches() and through `reuse lint`; plus a complete CLI plumbing slice (31 globs x 2 REUSE.toml locations x 25 files)",
         "glob alphabet of 5 symbols; realistic relative paths; Python's matcher equals NFA acceptance for the constructs used", "4/C05"),
 "C20": ("model_checking", "complete product enumeration against an independent notice model",
         "all holders x year forms x 10 prefixes through make_copyright_line and the tool's reader; every subset (<=3 quick, <=5 thorough) of a 48-notice universe through merge_copyright_lines; the same through the annotate CLI read back by lint",
         "holder grammar of 40 strings; notices that themselves look like tags/terminators excluded", "4/C20"),
 "C04": ("model_checking", "complete enumeration of the finite precedence product, reference precedence model",
         "every chain of up to three nested REUSE.toml files (13^3 plus decoy-table variants incl. literal-path decoys and directory-name variants; all 49^3 in thorough) x 24 file states, plus dep5 cells, judged per file against refmodel.precedence on the (value, source, source_type) items of lint --json",
         "one glob ('**') per table; values distinct per source so provenance is observable", "4/C04"),
 "C06": ("model_checking", "complete product enumeration (identifier class x use x provision) against a set-algebra inventory model",
         "8 identifier classes (two representatives each) x 13 ways of use (incl. a case twin of the identifier in a second file) x 7 ways of provision, each through the real `reuse lint --json`, all five inventory categories and used_licenses compared with refmodel.inventory; plus three trees over all bundled SPDX identifiers",
         "one representative identifier per class (two in thorough); SPDX data files are the authority for known/deprecated", "4/C06"),
 "C01": ("model_checking", "complete exploration of a defect-injection lattice over compliant-by-construction trees, verdict model derived from the abstract tree description",
         "8 base trees (headers + a snippet file whose marker straddles byte 4096, .license siblings + binaries, REUSE.toml override, nested closest/aggregate, dep5, compound expressions + LicenseRef, odd-but-valid TOML values, one closest table shared by six files) x {no VCS, Git} x every set of <= 3 (quick) / <= 5 (thorough) of 15 atomic defects, plus non-covered clutter in every tree; exit status, every category's offender set, summary.compliant and files[] compared with refmodel.verdict",
         "trees of <= 7 covered files; unreadable files simulated by a failing open() seam (sandbox runs as root)", "4/C01"),
 "C13": ("model_checking", "complete exploration of the C01 lattice x output formats x lint-file subsets/spellings, cross-format differential oracle",
         "for every C01 state the five lint invocations are parsed and must agree per category and with the exit status and JSON summary; for defect sets up to the lint-file bound all 32 subsets of a 5-path menu x 4 spellings go through lint-file and must equal lint's per-file problems",
         "C locale messages; names with spaces/non-ASCII but no newline", "4/C13"),
 "C18": ("model_checking", "complete enumeration of trees x option combinations and of an expression family; truth-table equivalence for LicenseConcluded",
         "every C01 base x defect sets (<=2 quick, <=3 thorough) x 5 option combinations of `reuse spdx`, all licence-expression trees with <= 2 operators over 3 atoms (alone and paired) and checksum chunk-boundary sizes; each document parsed by a strict tag-value reader and compared with lint --json, hashlib.sha1 and every truth assignment of the atoms",
         "'X WITH Y' and 'X+' are atoms; LicenseRef texts without '</text>'", "4/C18"),
 "C10": ("model_checking", "complete product enumeration + all 2-step command histories; byte-equality oracle",
         "every entry of the extension/file-name tables x line mode x 5 bodies, every --style x mode x prefix x year x template x target, hostile value tails built from each style's own marker, single-kind requests x all ten prefixes x every style, every ordered pair of an 8-command menu on 4 file types and 4-fold repetition: the scratch tree after the second identical run must be byte-identical",
         "bodies free of other REUSE tags; fixed --year", "4/C10"),
 "C07": ("model_checking", "complete sub-product enumeration (file types, styles x options, templates x targets, hostile tokens, multi-file invocations) with read-back through lint",
         "S1 every file type x mode x value set x prior content, S2 every style x mode x prefix x year x holder, S3 templates x target variants, S4 every comment token of any style in holder/contributor x style x mode, S5 every selection of 5 files with different prior information (one shadowed by a .license, one already holding the requested notice) with and without -r under 4 naming variants: success => lint reads back exactly prior U requested; failure => tree unchanged",
         "holder grammar of 4 + token-built values; default year accepted as the year before/after the call", "4/C07"),
 "C11": ("fault_enumeration", "exhaustive enumeration of failing-file subsets x argument orders x targets, whole-tree snapshot oracle",
         "every ordered selection of 3 (thorough also every 4-subset) of 9 file kinds, under naming variants that make both processing orders occur, x every non-empty set of comment terminators in the holder (which makes exactly the files of those styles fail) with >= 1 failing file, information-dropping templates x targets, and every usage-error cell with the offending file in each position: failing files and siblings byte-identical, none created, healthy files annotated, exit status 1 (2 for usage errors with nothing touched)",
         "anticipated failure causes only (those the statement lists)", "4/C11"),
 "C08": ("model_checking", "complete enumeration of line-token sequences x file-shape dimensions, structural byte-level oracle with the split known by construction",
         "every sequence (<=3 for python/c, <=2 for 6 more styles; <=4/<=3 over 27 styles in thorough) over 10 line tokens x {none, BOM, shebang, BOM+shebang, two declarations} x {LF, CRLF, CR} x final newline x {replace, --no-replace}: the new file must be core(before) + header block + core(after) with BOM/shebang first, one line-ending convention, and nothing but comment lines in the header block",
         "mixed line endings inside one file unspecified; in single-line styles the replaced block is the maximal adjacent comment run", "4/C08"),
 "C09": ("model_checking", "explicit-state BFS over command histories with state de-duplication, running-model invariant on every transition",
         "breadth-first search over all sequences (<=3 quick, <=4 thorough) of a 12-command annotate menu from 6 initial files x 4 styles, every transition executed by the real command on a scratch tree, states hashed on (tree bytes, model); after each transition the read-back must equal old U requested (semantically for --merge-copyrights)",
         "reuse is stateless between invocations (soundness of state merging); nocontrib templates may drop contributors of the replaced block", "4/C09"),
 "C03": ("model_checking", "complete product enumeration (name x place x kind; .gitignore rule sets; submodule/subproject options x cwd) with Git's check-ignore as oracle",
         "every (name, location, kind) cell over 42 names x 9 locations x 5 kinds packed and cell by cell, Git repositories for every .gitignore rule set (<=3 of 6 quick, all 64 thorough) x nested .gitignore over files in tracked/untracked/ignored states, and submodule + Meson subproject trees x 4 option combinations x 3 working directories; the examined sets of lint --json, spdx, lint-file, annotate -r <root> and annotate -r <every directory> must equal the reference covered set on every specified path",
         "Git 2.39.5 is the oracle for VCS exclusion; unspecified cells (nested LICENSES/.reuse, lower-case names, .git files) not asserted", "4/C03"),
 "C14": ("model_checking", "deviation-bounded exhaustive enumeration of environment answers behind harness-owned seams (virtual process pool, directory-listing order, hash seed, cwd, root spelling)",
         "10 trees (incl. case-variant identifiers and a Git submodule) x every pool chunk size x chunk execution order on a virtual pool that pickles the callable per chunk, every permutation of every directory listing (complete product or <= 2 deviating directories), 4 working directories x 6 root spellings, and one fresh interpreter per PYTHONHASHSEED (64 quick / 512 thorough): normalised lint --json and spdx output must equal the reference run",
         "kernel scheduling of real worker processes is not explored (virtual pool; one free-running real-pool run per tree is sampling); hash seeds are a finite range", "4/C14"),
 "C16": ("fault_enumeration", "exhaustive enumeration of malformed-input shapes and of single (and pairwise) I/O fault points, each under every subcommand",
         "every REUSE.toml key x 13 TOML value shapes (root and nested; key pairs), 30 hostile strings as path globs, 15 broken TOML files, 15 dep5 cases, 11 hostile byte classes x {header, .license}, 5 LICENSES/ oddities, and an OSError (4 errnos) injected at the k-th project-file open for every k (every pair in thorough), each under up to 9 command lines: exit status in {0,1,2}, no escaping exception, configuration errors name the file, other files still reported",
         "python-debian's own acceptance of odd dep5 files is not judged; network stubbed", "4/C16"),
 "C19": ("model_checking", "exhaustive enumeration of request sets x LICENSES states x per-identifier network outcomes (deviation-bounded) + all 2-command histories, against a stub network",
         "every request set (<=3 of 6 identifiers) x 3 LICENSES/ states x every assignment of 6 failure kinds to <=2 identifiers, invocation directory x VCS x --root, 13 option variants, every ordered pair of 6 download commands: only LICENSES/<id>.txt or --output created, nothing pre-existing altered, no partial file, exit status reflects failures, no URL for LicenseRef-, ID+ fetched as ID, lint clean after --all",
         "network replaced by a stub of urllib.request.urlopen that records URLs", "4/C19"),
 "C15": ("model_checking", "explicit-state BFS over command-line histories with content de-duplication; per-transition snapshot invariant",
         "breadth-first search over all sequences (<=2 quick, <=4 thorough) of a 27-entry menu covering every subcommand from 5 initial trees (plain, Git with ignored/untracked files, symlinks pointing outside the project, dep5, read-only files); after each transition a content + mode + mtime snapshot of the project and of a sentinel directory outside it is compared with what the command is documented to touch",
         ".git internals not compared; network stubbed; pool virtual", "4/C15"),
 "C17": ("model_checking", "regex-to-automaton extraction of both matchers + complete product exploration (language equality), exhaustive paragraph-sequence enumeration through the real command, fault enumeration of the write/unlink order",
         "every dep5 pattern over {a . / * ? \\} up to length 4 (quick) / 7 (thorough): the automaton of python-debian's matcher and of the matcher produced by the real conversion pipeline are compared in both directions over paths of any length (short paths and every counterexample replayed on the real matchers); every sequence of <= 3 Files paragraphs from a 12-entry menu and 36 field variants go through `reuse convert-dep5` with lint --json compared before/after; 6 fault/refusal cells for the write-then-unlink order",
         "realistic relative paths without whitespace; two recorded known findings ('?' and whole-segment '*')", "4/C17"),
 "C02": ("model_checking", "complete product enumeration of generated comment texts (expected value known by construction) + window/line-ending/snippet placement product through lint",
         "slice A: every real comment style x {single-line, inline multi-line, block multi-line} x 9 decorations (frame, indentation, trailing blanks, blanks after the terminator, stacked own / foreign terminators) x every licence, contributor and copyright prefix x holder x year value, read by the real extract_reuse_info; slice B: tag position relative to the 4096-byte window x {LF, CRLF, CR} x snippet marker x filler, and a snippet marker at every offset around multiples of 4096; slice C: unparseable expressions silence the file",
         "values ending in a terminator / mirrored prefix and tags straddling byte 4096 are observed only", "4/C02"),
}
PENDING_REASON = "check not built yet in this session (design in DESIGN.md section 4); not claimed until its machinery exists"

# dimensions added after the table was written (seed rounds 3/4); appended to the level text
EXTRA4 = {
 "C02": "; decoration 'terminator glued to the value'; slice D: ordered pairs / triples of licence tags in one comment",
 "C03": "; Git-ignored paths with non-UTF-8 names; ignored build products inside submodules; ignored siblings of wholly ignored directories; a consumer that cannot finish is a violation",
 "C05": "; dot-leading names and globs",
 "C06": "; third representatives (LicenseRef-Unknown-*, LLVM-exception, Nunit)",
 "C07": "; priors with a tag inside an ignore block (top / after code)",
 "C08": "; tokens X (code after the terminator), G (5000-character line), U/Q (one-line header quoted in code)",
 "C09": "; 15-command menu incl. --recursive with a named file",
 "C10": "; --style on uncommentable and binary files (three runs)",
 "C11": "; dropping templates x {--no-replace, --merge-copyrights, --skip-existing}; 9 unloadable/unrenderable templates; every unsupported (style, line mode) from a frozen capability table",
 "C12": "; annotate --skip-existing judged by the same reference scanner",
 "C13": "; stand-alone extra trees (dep5 paragraph with unparseable synopsis, odd REUSE.toml values)",
 "C14": "; re-lint history: tree A then tree B (and each tree after its mutated twin) on one path in one process; root names 'subprojects', 'LICENSES', '.reuse', 'x.license', 'LICENSE'; neighbour-identifier licence files",
 "C15": "; symlinked .license siblings (outside, dangling outside, shared inside), dangling-symlink licence destinations, a foreign directory called LICENSES as cwd",
 "C16": "; every licence-expression token sequence (<=3 quick / <=4 thorough tokens) x {header, .license, REUSE.toml} x 4 commands; 7 odd states of FILE.license x 3 routes",
 "C17": "; Copyright variants continuation / dot-separated / trailing blanks (72 field variants); conversion under an ASCII locale (real subprocess)",
 "C18": "; option spelling aliases; files sharing name and content",
 "C19": "; project root itself called LICENSES x VCS x --root x cwd",
 "C20": "; bare (c)-symbol prefix in the universe; licence-less existing headers; several complete notices of one holder in one command; project templates x every holder",
}
EXTRA5 = {
 "C02": "; slice E: tags without a value; the 4096-byte window edge at every byte of a tag line (read whole or not at all)",
 "C03": "; ignored backup of a licence text inside LICENSES/",
 "C06": "; extra trees (a root file called LICENSES, a README inside LICENSES/)",
 "C07": "; prior 'file already holds an unparseable tag'",
 "C08": "; '#!' first line in the script-language styles; tokens N (snippet block) and R (carriage return as data in an LF file)",
 "C09": "; start states with an unparseable sidecar / header",
 "C11": "; option values that cannot be encoded as UTF-8; empty --license",
 "C12": "; 50-5000 consecutive blocks in a file read in full; --skip-existing on CRLF / CR renderings",
 "C13": "; a symbolic link to the defective file among lint-file's arguments",
 "C14": "; tree 'equal-expressions' (one licensing spelled twice) in every slice incl. 64 / 512 hash seeds",
 "C15": "; path-like identifiers for download",
 "C16": "; file names of 240-255 bytes x {text, binary} x 5 commands; a LicenseRef text in the I/O-fault tree (18 fault points)",
 "C17": "; dep5 paragraphs whose License field is no SPDX expression (matching a file or not); REUSE.toml as a symbolic link",
 "C19": "; nine kinds of failed transfer, an aborted batch counts as a violation",
 "C20": "; several --year values of which one is a range",
}
EXTRA6 = {
 "C02": "; a tag ending exactly at the window edge; contributor values ending in one character of a several-character marker",
 "C03": "; .gitmodules that registers no submodule; a wholly ignored directory below LICENSES/",
 "C07": "; prior 'ignore block directly below the header'",
 "C08": "; token M (header with CR LF lines pasted into an LF file)",
 "C11": "; empty --copyright / --contributor",
 "C13": "; extra tree with dep5 fields in unusual but valid forms",
 "C14": "; merging notices whose prefixes tie, under every hash seed",
 "C16": "; wrongly typed REUSE.toml values and dep5 paragraphs that cannot work must be configuration errors naming the file; FILE.license as directory / named pipe",
 "C18": "; dep5 layout lines and synopsis-less License fields",
 "C19": "; non-ASCII identifiers; licences already provided under another extension or in a subdirectory",
}
EXTRA7 = {
 "C14": "; the plain and --lines texts are observed too (as multisets of lines, lists as sets: the statement allows any ordering of entries) wherever the working directory is the root; tree with six extension-less licence texts",
 "C08": "; token Y (the closing line of the header comment goes on with code and another comment); covered files named like table entries in another letter case (*.LICENSE)",
 "C10": "; a template holding a closed ignore block; values with any of the 10 line-boundary characters of str.splitlines(); --merge-copyrights after 1..3 annotated years x 10 x 10 prefixes, run three times; a commented block-comment template with values that hold the terminator",
 "C16": "; named pipes / directories at 7 names the tool opens by name x 5 commands as real processes with a time limit; expressions nested up to 380 levels",
 "C17": "; REUSE.toml as a named pipe; an exception or a project that no longer loads after a failed conversion is a violation",
 "C19": "; six local file-system failures (ENOTDIR, EISDIR, EFBIG by RLIMIT_FSIZE, failing open) with batch continuation and no partial file; a working directory unrelated to a root called LICENSES",
}
EXTRA = {
 "C05": "; CLI plumbing slice: 39 globs x REUSE.toml at ./, d/, d/e/ over a tree with prefix-sharing sibling directories (dd/, d2/, d-e/, d/e2/)",
 "C06": "; eleven trees over the whole bundled SPDX list (used and/or provided x txt, md, no extension, subdirectory, ID+.txt)",
 "C07": "; S3 includes commented information-dropping templates",
 "C10": "; templates that carry a fixed licence / an extra fixed notice x every style x year option x target",
 "C11": "; information-dropping templates include pre-commented ones",
 "C14": "; root directory named with glob characters ('p[1]', '[!a] b', 'p*x' next to 'pyx', 'p?x', '{a,b}', backslash) x four cwd/spelling cells x every tree",
 "C16": "; 18 odd/broken dep5 files; 16 .gitmodules and 9 .gitignore byte shapes inside a Git repository under every subcommand",
 "C17": "; 60 field variants incl. Copyright values starting on the continuation line and '.'-separated",
 "C18": "; File sections also compared with the specification model of the tree (independent of lint's walk)",
 "C20": "; every holder x 2 year forms x 2 prefixes read back from inside a comment of every style",
}


def main():
    checks, na = [], []
    props = [json.loads(l)["id"] for l in open(f"{V}/properties.jsonl")]
    for pid in props:
        if pid in CHECKS and os.path.exists(f"{V}/mc/checks/{pid.lower()}.py"):
            cat, tech, text, note, ref = CHECKS[pid]
            text += EXTRA.get(pid, "") + EXTRA4.get(pid, "") + EXTRA5.get(pid, "") + EXTRA6.get(pid, "") + EXTRA7.get(pid, "")
            checks.append({
                "property_id": pid,
                "quick_cmd": f"/venv/bin/python -m mc.run {pid} --tier quick",
                "thorough_cmd": f"/venv/bin/python -m mc.run {pid} --tier thorough",
                "evidence_file": f"/verif/evidence/{pid}.json",
                "replay_cmd_template": "/venv/bin/python -m mc.replay {path}",
                "engine": "mc",
                "level_claimed": {"category": cat, "text": text, "design_ref": ref},
                "level_note": note,
                "technique": tech,
            })
        else:
            na.append({"property_id": pid, "reason": NA.get(pid, PENDING_REASON)})
    m = {
        "version": 1,
        "setup_cmd": "/venv/bin/python -m compileall -q /verif/mc && mkdir -p /verif/evidence /verif/replays",
        "hooks": {
            "guard": "REUSE_VERIF",
            "enable": "no source hooks: all seams are module-attribute patches applied by the harness process (mc/envctl.py); mc.run exports REUSE_VERIF=1 for symmetry only",
            "baseline_off_cmd": BASE.replace("--junitxml=<file>", "--junitxml=/dev/shm/reuse-baseline.junit.xml"),
            "source_commits": [],
            "add_only": True,
        },
        "engines": [{"name": "mc", "path": "/verif/mc", "serves_properties": [c["property_id"] for c in checks],
                     "kind_free_text": "hand-written explicit-state / bounded-exhaustive explorer for Python driving the real reuse code in-process (E1 product enumerator, E2 history BFS, E3 environment/fault enumerator, E4 regex-automaton product)"}],
        "checks": checks,
        "not_applicable": na,
        "notes": "All checks: cwd=/verif, `/venv/bin/python -m mc.run <ID> --tier quick|thorough`; honours VERIF_SEED / VERIF_TIER; exit 0/1, exit 2 = check itself broken. Known findings: /verif/known_findings.json.",
    }
    json.dump(m, open(f"{V}/MANIFEST.json", "w"), indent=1)
    print("claimed:", [c["property_id"] for c in checks], "not claimed:", [n["property_id"] for n in na])
NA = {}
if __name__ == "__main__":
    main()
