#!/venv/bin/python
"""Print the DESIGN section-9 coverage table from /verif/evidence/*.json (last run of each check)."""
import glob, json
print("| check | tier | cases | states | transitions | real-code evaluations | traces validated | distinct outcomes | wall |")
print("|---|---|---|---|---|---|---|---|---|")
for f in sorted(glob.glob("/verif/evidence/C*.json")):
    d = json.load(open(f)); c = d["coverage"]
    fmt = lambda n: f"{n:,}".replace(",", " ")
    print(f"| {d['property_id']} | {d['tier']} | {fmt(c['cases'])} | {fmt(c['states'])} | {fmt(c['transitions'])} | {fmt(c['evaluations'])} | "
          f"{fmt(c['traces_validated_against_impl'])} | {c['distinct_outcomes']} | {d['wall_s']:.0f} s |")
