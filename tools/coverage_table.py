#!/venv/bin/python
"""Print the DESIGN section-9 coverage table from /verif/evidence/*.json (last run of each check)."""
import glob, json, sys
lines = []
_print = print
def print(x):  # noqa: A001 - collect instead of printing
    lines.append(x)
print("| check | tier | cases | states | transitions | real-code evaluations | traces validated | distinct outcomes | wall |")
print("|---|---|---|---|---|---|---|---|---|")
for f in sorted(glob.glob("/verif/evidence/C*.json")):
    d = json.load(open(f)); c = d["coverage"]
    fmt = lambda n: f"{n:,}".replace(",", " ")
    print(f"| {d['property_id']} | {d['tier']} | {fmt(c['cases'])} | {fmt(c['states'])} | {fmt(c['transitions'])} | {fmt(c['evaluations'])} | "
          f"{fmt(c['traces_validated_against_impl'])} | {c['distinct_outcomes']} | {d['wall_s']:.0f} s |")

if "--write" in sys.argv:
    p = "/verif/DESIGN.md"
    d = open(p).read()
    a, b = d.index("<!-- COVERAGE-TABLE-BEGIN -->") + len("<!-- COVERAGE-TABLE-BEGIN -->"), d.index("<!-- COVERAGE-TABLE-END -->")
    open(p, "w").write(d[:a] + "\n" + "\n".join(lines) + "\n" + d[b:])
    _print("DESIGN.md updated")
else:
    _print("\n".join(lines))
