#!/venv/bin/python
"""Run the repository's pinned suite (guard off) in a given worktree and compare
with /root/.vp/BASELINE.json's stable_pass list.  Usage: baseline.py [repo_dir]
Exit 0 iff every stable_pass test passed."""
import json, os, subprocess, sys, tempfile
import xml.etree.ElementTree as ET

repo = sys.argv[1] if len(sys.argv) > 1 else "/repo"
base = json.load(open("/root/.vp/BASELINE.json"))
want = set(base["stable_pass"])
fd, xml = tempfile.mkstemp(suffix=".xml"); os.close(fd)
env = {k: v for k, v in os.environ.items() if k != "REUSE_VERIF"}
env["PYTHONPATH"] = os.path.join(repo, "src")
p = subprocess.run(["/venv/bin/python", "-m", "pytest", "-q", "-p", "no:cacheprovider", "--timeout=900",
                    "--continue-on-collection-errors", f"--junitxml={xml}"], cwd=repo, env=env,
                   capture_output=True, text=True)
passed = set()
for tc in ET.parse(xml).getroot().iter("testcase"):
    if not any(ch.tag in ("failure", "error", "skipped") for ch in tc):
        passed.add(f"{tc.get('classname')}::{tc.get('name')}")
os.unlink(xml)
missing = sorted(want - passed)
print(f"stable_pass={len(want)} passed_now={len(passed)} missing={len(missing)}")
for m in missing[:30]:
    print("  NOT PASSING:", m)
sys.exit(1 if missing else 0)
