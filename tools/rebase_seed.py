#!/venv/bin/python
"""rebase_seed.py <seed-id> ...   Port a kept seed whose patch no longer applies to /repo HEAD.
In a scratch worktree of HEAD: `git apply --3way`; if that merges cleanly the new diff replaces patch.diff (the old one is kept as
patch.before-rebase.diff), and the seed is confirmed again: demo exits 0 without and non-zero with the patch, pinned suite still passes."""
import json, os, shutil, subprocess, sys, tempfile

def sh(cmd, **kw):
    return subprocess.run(cmd, shell=True, capture_output=True, text=True, **kw)

for sid in sys.argv[1:]:
    d = f"/verif/seeded/{sid}"
    wt = tempfile.mkdtemp(prefix="rebase-", dir="/tmp"); os.rmdir(wt)
    try:
        assert sh(f"git -C /repo worktree add -q --detach {wt} HEAD").returncode == 0
        env = dict(os.environ, PYTHONPATH=f"{wt}/src"); env.pop("REUSE_VERIF", None)
        if sh(f"git -C {wt} apply --check {d}/patch.diff").returncode == 0:
            print(f"{sid}: applies as it is"); continue
        a = sh(f"git -C {wt} apply --3way {d}/patch.diff")
        st = sh(f"git -C {wt} status --porcelain").stdout
        if a.returncode != 0 or any(l[:2] in ("UU", "AA", "DU", "UD") for l in st.splitlines()) or "<<<<<<<" in sh(f"git -C {wt} diff").stdout:
            print(f"{sid}: CONFLICT ({a.stderr.strip().splitlines()[-1] if a.stderr.strip() else st.strip()})"); continue
        new = sh(f"git -C {wt} diff HEAD").stdout
        if not new.strip():
            print(f"{sid}: merged to nothing (the change is already in HEAD?)"); continue
        d1 = sh(f"/venv/bin/python {d}/demo.py", env=env, cwd=wt)
        sh(f"git -C {wt} stash -q") if False else None
        sh(f"git -C {wt} checkout -q HEAD -- . && git -C {wt} reset -q")
        d0 = sh(f"/venv/bin/python {d}/demo.py", env=env, cwd=wt)
        open(f"{wt}/.new.diff", "w").write(new)
        assert sh(f"git -C {wt} apply {wt}/.new.diff").returncode == 0
        b = sh(f"/verif/tools/baseline.py {wt}")
        ok = d0.returncode == 0 and d1.returncode != 0 and b.returncode == 0
        print(f"{sid}: merged; demo without={d0.returncode} with={d1.returncode} suite_ok={b.returncode == 0} -> {'REBASED' if ok else 'NOT CONFIRMED'}")
        if ok:
            if not os.path.exists(f"{d}/patch.before-rebase.diff"):
                shutil.copy(f"{d}/patch.diff", f"{d}/patch.before-rebase.diff")
            open(f"{d}/patch.diff", "w").write(new)
            m = json.load(open(f"{d}/meta.json")); m["rebased_onto"] = sh("git -C /repo rev-parse --short HEAD").stdout.strip()
            json.dump(m, open(f"{d}/meta.json", "w"), indent=1, ensure_ascii=False)
    finally:
        sh(f"git -C /repo worktree remove --force {wt}"); shutil.rmtree(wt, ignore_errors=True)
