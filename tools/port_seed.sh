#!/bin/bash
# usage: port_seed.sh <seed-id>   -- /tmp/devrepo (a worktree of /repo HEAD) holds the hand-ported change as uncommitted edits.
# Confirms it (demo fails with / passes without, pinned suite passes with) and stores it as the seed's patch.diff.
set -u
id=$1; d=/verif/seeded/$id; wt=${WT:-/tmp/devrepo}
[ "$(git -C $wt rev-parse HEAD)" = "$(git -C /repo rev-parse HEAD)" ] || { echo "devrepo is not at /repo HEAD"; exit 9; }
git -C $wt diff HEAD > /tmp/port.$$.diff
[ -s /tmp/port.$$.diff ] || { echo "no change in $wt"; exit 9; }
export PYTHONPATH=$wt/src
(cd $wt && /venv/bin/python $d/demo.py >/dev/null 2>&1); with=$?
git -C $wt checkout -q -- .
(cd $wt && /venv/bin/python $d/demo.py >/dev/null 2>&1); without=$?
git -C $wt apply /tmp/port.$$.diff
unset PYTHONPATH
/verif/tools/baseline.py $wt > /tmp/port.$$.suite 2>&1; suite=$?
git -C $wt checkout -q -- .
echo "$id: demo without=$without with=$with suite_rc=$suite"
if [ $without -eq 0 ] && [ $with -ne 0 ] && [ $suite -eq 0 ]; then
  [ -f $d/patch.before-rebase.diff ] || cp $d/patch.diff $d/patch.before-rebase.diff
  cp /tmp/port.$$.diff $d/patch.diff
  /venv/bin/python - <<PY
import json,subprocess
p="$d/meta.json"; m=json.load(open(p)); m["rebased_onto"]=subprocess.check_output(["git","-C","/repo","rev-parse","--short","HEAD"]).decode().strip(); m["rebased_by_hand"]=True
json.dump(m,open(p,"w"),indent=1,ensure_ascii=False)
PY
  echo "  -> stored"
else
  tail -3 /tmp/port.$$.suite
fi
rm -f /tmp/port.$$.diff /tmp/port.$$.suite
