#!/venv/bin/python
"""Systematic detection demonstration (not a deciding technique): apply classic
single-point mutations to a *copy* of the repository, keep those the pinned
suite does not kill, and run the quick checks anchored in the mutated file
against the copy (PYTHONPATH=<copy>/src makes `import reuse` resolve to it).

usage: mutate.py <scratch-dir> <out.json> [--stride N] [--offset K] [--files a.py,b.py] [--max M] [--minutes T]
<scratch-dir> is created as a git worktree of /repo HEAD (it must not exist) and removed at the end.  Before the first mutant every check
that will be used is run against the unmutated copy and must be silent - otherwise a defect of the copy itself (e.g. a stale copy that
lacks a later fix) would make every mutant count as detected.  The commit of the copy is recorded in the output.
"""
import ast
import copy
import json
import os
import subprocess
import sys
import time

FILE_CHECKS = {
    "extract.py": ["C02", "C12", "C14", "C20", "C10"],
    "header.py": ["C07", "C08", "C09", "C10", "C11"],
    "_annotate.py": ["C07", "C08", "C11", "C16", "C10"],
    "comment.py": ["C07", "C08", "C10", "C02"],
    "copyright.py": ["C20", "C09"],
    "covered_files.py": ["C03", "C01", "C13"],
    "project.py": ["C04", "C06", "C01", "C16"],
    "report.py": ["C01", "C06", "C13", "C18", "C14"],
    "global_licensing.py": ["C05", "C04", "C16", "C17"],
    "lint.py": ["C13", "C14"],
    "convert_dep5.py": ["C17"],
    "download.py": ["C19", "C15"],
    "_util.py": ["C04", "C06", "C18", "C19", "C14"],
    "vcs.py": ["C03", "C14"],
    "cli/annotate.py": ["C11", "C07", "C15", "C03", "C20"],
    "cli/download.py": ["C19"],
    "cli/convert_dep5.py": ["C17", "C15"],
    "cli/lint_file.py": ["C13"],
    "cli/lint.py": ["C13", "C01"],
    "cli/spdx.py": ["C18"],
    "cli/common.py": ["C16", "C14"],
}
CMP = {ast.Eq: ast.NotEq, ast.NotEq: ast.Eq, ast.Lt: ast.LtE, ast.LtE: ast.Lt, ast.Gt: ast.GtE, ast.GtE: ast.Gt, ast.In: ast.NotIn,
       ast.NotIn: ast.In, ast.Is: ast.IsNot, ast.IsNot: ast.Is}


def mutation_points(tree):
    """Yield (description, mutator) where mutator(tree_copy_node_index) applies the change."""
    nodes = list(ast.walk(tree))
    for i, n in enumerate(nodes):
        ln = getattr(n, "lineno", 0)
        if isinstance(n, ast.Compare) and len(n.ops) == 1 and type(n.ops[0]) in CMP:
            yield i, ln, f"cmp {type(n.ops[0]).__name__}->{CMP[type(n.ops[0])].__name__}"
        elif isinstance(n, ast.BoolOp):
            yield i, ln, f"boolop {type(n.op).__name__} swapped"
        elif isinstance(n, ast.UnaryOp) and isinstance(n.op, ast.Not):
            yield i, ln, "not removed"
        elif isinstance(n, ast.Constant) and isinstance(n.value, bool):
            yield i, ln, f"bool {n.value}->{not n.value}"
        elif isinstance(n, ast.Constant) and isinstance(n.value, int) and not isinstance(n.value, bool) and abs(n.value) <= 4096:
            yield i, ln, f"int {n.value}->{n.value + 1}"
        elif isinstance(n, (ast.Break, ast.Continue)):
            yield i, ln, f"{type(n).__name__.lower()} -> pass"
        elif isinstance(n, ast.If) and not n.orelse and len(n.body) == 1 and isinstance(n.body[0], (ast.Return, ast.Continue, ast.Raise)) is False:
            pass
        elif isinstance(n, ast.Attribute) and n.attr in ("rstrip", "lstrip", "strip"):
            yield i, ln, f"{n.attr} -> {'strip' if n.attr != 'strip' else 'rstrip'}"
        elif isinstance(n, ast.Call) and isinstance(n.func, ast.Name) and n.func.id in ("sorted", "reversed") and len(n.args) == 1 and not n.keywords:
            yield i, ln, f"{n.func.id}() dropped"


def apply(tree, index):
    t = copy.deepcopy(tree)
    n = list(ast.walk(t))[index]
    if isinstance(n, ast.Compare):
        n.ops = [CMP[type(n.ops[0])]()]
    elif isinstance(n, ast.BoolOp):
        n.op = ast.Or() if isinstance(n.op, ast.And) else ast.And()
    elif isinstance(n, ast.UnaryOp):
        # replace `not x` by `x`: mutate in place into a no-op unary plus is wrong for bools; use double negation trick
        n.op = ast.Not()
        n.operand = ast.UnaryOp(op=ast.Not(), operand=n.operand)
    elif isinstance(n, ast.Constant) and isinstance(n.value, bool):
        n.value = not n.value
    elif isinstance(n, ast.Constant):
        n.value = n.value + 1
    elif isinstance(n, (ast.Break, ast.Continue)):
        n.__class__ = ast.Pass
    elif isinstance(n, ast.Attribute):
        n.attr = "strip" if n.attr != "strip" else "rstrip"
    elif isinstance(n, ast.Call):
        # sorted(x) -> list(x) ; reversed(x) -> list(x)
        n.func.id = "list"
    ast.fix_missing_locations(t)
    return ast.unparse(t) + "\n"


def sh(cmd, **kw):
    return subprocess.run(cmd, shell=True, capture_output=True, text=True, **kw)


def main():
    repo, out = sys.argv[1], sys.argv[2]
    args = sys.argv[3:]
    if os.path.exists(repo):
        sys.exit(f"{repo} exists; give a fresh scratch path")
    head = sh("git -C /repo rev-parse --short HEAD").stdout.strip()
    if sh(f"git -C /repo worktree add -q --detach {repo} HEAD").returncode != 0:
        sys.exit("cannot create the worktree")
    try:
        _campaign(repo, out, args, head)
    finally:
        sh(f"git -C /repo worktree remove --force {repo}")
        sh("git -C /repo worktree prune")


def _campaign(repo, out, args, head):
    stride = int(args[args.index("--stride") + 1]) if "--stride" in args else 7
    offset = int(args[args.index("--offset") + 1]) if "--offset" in args else 0
    only = args[args.index("--files") + 1].split(",") if "--files" in args else list(FILE_CHECKS)
    maxn = int(args[args.index("--max") + 1]) if "--max" in args else 10 ** 9
    deadline = time.time() + 60 * float(args[args.index("--minutes") + 1]) if "--minutes" in args else None
    results = json.load(open(out)) if os.path.exists(out) else []
    done = {(r["file"], r["index"]) for r in results}
    env = dict(os.environ, PYTHONPATH=f"{repo}/src")
    env.pop("REUSE_VERIF", None)
    used = sorted({c for rel in only for c in FILE_CHECKS[rel]})
    for c in used:
        p = subprocess.run(["/venv/bin/python", "-m", "mc.run", c, "--tier", "quick"], cwd="/verif", env=env, capture_output=True, text=True)
        if p.returncode != 0:
            sys.exit(f"check {c} is not silent on the unmutated copy (exit {p.returncode}); refusing to start")
    print(f"copy at {head}: {len(used)} checks silent on it", flush=True)
    results = [r for r in results if r.get("head") == head]
    done = {(r["file"], r["index"]) for r in results}
    count = 0
    for rel in only:
        path = f"{repo}/src/reuse/{rel}"
        src = open(path).read()
        tree = ast.parse(src)
        pts = list(mutation_points(tree))
        for k, (index, ln, desc) in enumerate(pts):
            if (k + offset) % stride != 0 or (rel, index) in done:
                continue
            if count >= maxn or (deadline and time.time() > deadline):
                break
            count += 1
            try:
                mutated = apply(tree, index)
                compile(mutated, path, "exec")
            except Exception as e:
                continue
            rec = {"head": head, "file": rel, "index": index, "line": ln, "mutation": desc}
            open(path, "w").write(mutated)
            try:
                t0 = time.time()
                b = sh(f"/verif/tools/baseline.py {repo}")
                rec["suite_kills"] = b.returncode != 0
                if not rec["suite_kills"]:
                    rec["checks"] = {}
                    for c in FILE_CHECKS[rel]:
                        p = subprocess.run(["/venv/bin/python", "-m", "mc.run", c, "--tier", "quick"], cwd="/verif", env=env, capture_output=True, text=True)
                        rec["checks"][c] = {0: "silent", 1: "VIOLATION", 2: "check-broken"}.get(p.returncode, str(p.returncode))
                        if p.returncode == 1:
                            sig = [l.strip() for l in p.stdout.splitlines() if l.strip().startswith("signature=")]
                            rec.setdefault("first_signature", sig[0][:200] if sig else "")
                            break
                    rec["detected"] = any(v == "VIOLATION" for v in rec["checks"].values())
                rec["secs"] = round(time.time() - t0, 1)
            finally:
                open(path, "w").write(src)
            results.append(rec)
            json.dump(results, open(out, "w"), indent=1)
            print(json.dumps(rec), flush=True)
    surv = [r for r in results if not r["suite_kills"]]
    print(f"mutants={len(results)} survive_suite={len(surv)} detected_by_checks={sum(1 for r in surv if r.get('detected'))}")


if __name__ == "__main__":
    main()
