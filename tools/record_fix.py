#!/usr/bin/env python3
"""record_fix.py <PROP> <signature> <what_fails> <design-row-property-cell>   -- records the newest /repo commit as a fixed finding:
appends to known_findings.json (findings + fixed_lines), adds a row to the table of DESIGN section 10 and bumps the fix counter."""
import json, re, subprocess, sys
prop, sig, what, cell = sys.argv[1:5]
c = subprocess.check_output(["git", "-C", "/repo", "log", "-1", "--format=%h"]).decode().strip()
subject = subprocess.check_output(["git", "-C", "/repo", "log", "-1", "--format=%s"]).decode().strip()
assert subject.startswith("fix:"), subject
p = "/verif/known_findings.json"
d = json.load(open(p))
d["findings"].append({"property": prop, "signature": sig, "status": "fixed", "commit": c, "what_fails": what})
d["fixed_lines"].append(f"fixed: property={prop} {c} {what[:160]}")
json.dump(d, open(p, "w"), indent=1, ensure_ascii=False)
p = "/verif/DESIGN.md"
s = open(p).read()
anchor = "| C17 | dep5 `?` has no REUSE.toml equivalent and is copied literally | **known**"
assert anchor in s
s = s.replace(anchor, f"| {cell} | {what} | fix {c} |\n" + anchor, 1)
m = re.search(r"(\d+) `fix:` commits", s)
s = s.replace(m.group(0), f"{int(m.group(1)) + 1} `fix:` commits", 1)
open(p, "w").write(s)
print("recorded", c, subject[:70])
