#!/venv/bin/python
"""Summarise seeded/mutation_campaign.json as the markdown of DESIGN.md section 11a (between the MUTATION markers; --write splices it in)."""
import collections, json, re, sys
rs = json.load(open("/verif/seeded/mutation_campaign.json"))
heads = sorted({r["head"] for r in rs})
surv = [r for r in rs if not r["suite_kills"]]
det = [r for r in surv if r.get("detected")]
byfile = collections.OrderedDict()
for r in rs:
    f = byfile.setdefault(r["file"], [0, 0, 0])
    f[0] += 1
    f[1] += (not r["suite_kills"])
    f[2] += bool(r.get("detected"))
out = [f"{len(rs)} mutants of /repo at {', '.join(heads)}: the pinned suite kills {len(rs) - len(surv)}, {len(surv)} survive it, and the quick checks anchored in the",
       f"mutated file report {len(det)} of the survivors (exit 1 + VIOLATION); every check was silent on the unmutated copy before the first mutant.", "",
       "| file | mutants | survive the suite | of those detected by a check |", "|---|---|---|---|"]
for f, (n, s, d) in byfile.items():
    out.append(f"| {f} | {n} | {s} | {d} |")
out += ["", "Survivors that no check reports:", ""]
for r in surv:
    if not r.get("detected"):
        out.append(f"* `{r['file']}:{r['line']}` {r['mutation']} - checks run: {', '.join(r.get('checks', {}))}")
out += ["", "Detected survivors (first signature):", ""]
for r in det:
    c = [k for k, v in r["checks"].items() if v == "VIOLATION"][0]
    out.append(f"* `{r['file']}:{r['line']}` {r['mutation']} - {c}: `{r.get('first_signature', '')[:110]}`")
text = "\n".join(out) + "\n"
if "--write" in sys.argv:
    p = "/verif/DESIGN.md"
    s = open(p).read()
    s = re.sub(r"(<!-- MUTATION-BEGIN -->\n).*?(<!-- MUTATION-END -->)", lambda m: m.group(1) + text + m.group(2), s, flags=re.S)
    open(p, "w").write(s)
else:
    print(text)
