#!/bin/bash
# usage: try_seed.sh <patch.diff> <CHECK-ID> [more check ids]  -- applies the patch to /repo, runs the quick checks, reverts.
set -u
patch=$1; shift
cd /repo || exit 9
if [ -n "$(git status --porcelain -- src)" ]; then echo "/repo has uncommitted changes under src; refusing"; exit 9; fi
if ! git apply --check "$patch" 2>/dev/null; then echo "PATCH DOES NOT APPLY: $patch"; exit 8; fi
git apply "$patch"
cd /verif
rc_all=0
for id in "$@"; do
  out=$(VERIF_SEED=${VERIF_SEED:-0} /venv/bin/python -m mc.run "$id" --tier quick 2>&1); rc=$?
  echo "== $id rc=$rc"; echo "$out" | grep -E "^(VIOLATION|KNOWN-FINDING|CHECK-BROKEN|\[C)" | head -8
  echo "$out" | grep -A1 "^VIOLATION" | grep "signature" | head -4
  [ $rc -ne 0 ] && rc_all=$rc
done
git -C /repo checkout -- . 
exit $rc_all
